package wire

// Bounded stand-in for the part of C07 that is not proved (completeness of the cycle search and
// termination): the REAL verifyAcyclic runs on every provider graph with at most N nodes (every
// subset of edges; node kinds: function provider / field provider / value leaf) and its verdict is
// compared with a reference cycle test. Each run has a deadline (termination).

import (
	"fmt"
	"math/rand"
	"go/token"
	"go/types"
	"os"
	"strconv"
	"testing"
	"time"

	"golang.org/x/tools/go/types/typeutil"
)

func boundedTypes(n int) []types.Type {
	pkg := types.NewPackage("example.com/g", "g")
	var ts []types.Type
	for i := 0; i < n; i++ {
		tn := types.NewTypeName(token.NoPos, pkg, fmt.Sprintf("T%d", i), nil)
		ts = append(ts, types.NewNamed(tn, types.NewStruct(nil, nil), nil))
	}
	return ts
}

func refHasCycle(n int, adj [][]int) bool {
	color := make([]int, n)
	var dfs func(u int) bool
	dfs = func(u int) bool {
		color[u] = 1
		for _, v := range adj[u] {
			if color[v] == 1 || (color[v] == 0 && dfs(v)) {
				return true
			}
		}
		color[u] = 2
		return false
	}
	for u := 0; u < n; u++ {
		if color[u] == 0 && dfs(u) {
			return true
		}
	}
	return false
}

func TestBounded_verifyAcyclic(t *testing.T) {
	maxN := 3
	if s := os.Getenv("GOVC_BOUND"); s != "" {
		maxN, _ = strconv.Atoi(s)
	}
	graphs, cyclic, mismatches := 0, 0, 0
	hasher := typeutil.MakeHasher()
	pkg := types.NewPackage("example.com/g", "g")
	for n := 1; n <= maxN; n++ {
		ts := boundedTypes(n)
		nEdges := n * n
		for mask := 0; mask < 1<<uint(nEdges); mask++ {
			adj := make([][]int, n)
			for e := 0; e < nEdges; e++ {
				if mask&(1<<uint(e)) != 0 {
					adj[e/n] = append(adj[e/n], e%n)
				}
			}
			// node kinds: out-degree 0 -> value; out-degree 1 and odd node -> field provider; else function provider
			pm := new(typeutil.Map)
			pm.SetHasher(hasher)
			for u := 0; u < n; u++ {
				switch {
				case len(adj[u]) == 0:
					pm.Set(ts[u], &ProvidedType{t: ts[u], v: &Value{Out: ts[u]}})
				case len(adj[u]) == 1 && u%2 == 1:
					pm.Set(ts[u], &ProvidedType{t: ts[u], f: &Field{Parent: ts[adj[u][0]], Name: "F", Pkg: pkg, Out: []types.Type{ts[u]}}})
				default:
					p := &Provider{Pkg: pkg, Name: fmt.Sprintf("p%d", u), Out: []types.Type{ts[u]}}
					for _, v := range adj[u] {
						p.Args = append(p.Args, ProviderInput{Type: ts[v]})
					}
					pm.Set(ts[u], &ProvidedType{t: ts[u], p: p})
				}
			}
			graphs++
			want := refHasCycle(n, adj)
			if want {
				cyclic++
			}
			done := make(chan []error, 1)
			go func() { done <- verifyAcyclic(pm, hasher) }()
			select {
			case errs := <-done:
				if (len(errs) > 0) != want {
					mismatches++
					fmt.Printf("BOUNDED-FAIL fn=wire:verifyAcyclic n=%d edges=%v want-cycle=%v got-errors=%d\n", n, adj, want, len(errs))
				}
			case <-time.After(5 * time.Second):
				mismatches++
				fmt.Printf("BOUNDED-FAIL fn=wire:verifyAcyclic n=%d edges=%v did not terminate within 5s\n", n, adj)
				t.FailNow()
			}
		}
	}
	// thorough tier: additionally a seeded random sample of sparser graphs with 5..7 nodes
	sample := 0
	if s := os.Getenv("GOVC_SAMPLE"); s != "" {
		sample, _ = strconv.Atoi(s)
	}
	seed := int64(1)
	if s := os.Getenv("VERIF_SEED"); s != "" {
		seed, _ = strconv.ParseInt(s, 10, 64)
	}
	rng := rand.New(rand.NewSource(seed))
	sampled := 0
	for k := 0; k < sample; k++ {
		n := 5 + rng.Intn(3)
		ts := boundedTypes(n)
		adj := make([][]int, n)
		for u := 0; u < n; u++ {
			for v := 0; v < n; v++ {
				if rng.Intn(n) == 0 {
					adj[u] = append(adj[u], v)
				}
			}
		}
		pm := new(typeutil.Map)
		pm.SetHasher(hasher)
		for u := 0; u < n; u++ {
			if len(adj[u]) == 0 {
				pm.Set(ts[u], &ProvidedType{t: ts[u], v: &Value{Out: ts[u]}})
				continue
			}
			p := &Provider{Pkg: pkg, Name: fmt.Sprintf("p%d", u), Out: []types.Type{ts[u]}}
			for _, v := range adj[u] {
				p.Args = append(p.Args, ProviderInput{Type: ts[v]})
			}
			pm.Set(ts[u], &ProvidedType{t: ts[u], p: p})
		}
		sampled++
		want := refHasCycle(n, adj)
		if (len(verifyAcyclic(pm, hasher)) > 0) != want {
			mismatches++
			fmt.Printf("BOUNDED-FAIL fn=wire:verifyAcyclic sampled n=%d edges=%v want-cycle=%v\n", n, adj, want)
		}
	}
	fmt.Printf("BOUNDED-SUMMARY fn=wire:verifyAcyclic bound=%d graphs=%d cyclic=%d mismatches=%d sampled=%d\n", maxN, graphs, cyclic, mismatches, sampled)
	if mismatches > 0 {
		t.Fail()
	}
}
