package wire

// Replay harness for copyAST (C15): the REAL copyAST is run on every declaration of a corpus that
// uses every statement, expression, type and declaration form of the language (generics included),
// and the copy is compared with the original field by field with reflection: same dynamic type, a
// distinct object (identifiers: the identical object), equal scalars, children copied recursively,
// lists of equal length and nil-ness.  A difference is reported as
//
//	REPLAY-FAIL fn=wire:copyAST$1 clause=<clause of GOVC_OBLIGATION> type=<T> field=<F> ...
//
// when the failed obligation's clause text (GOVC_CLAUSE_TEXT) speaks about that type (and field).

import (
	"fmt"
	"go/ast"
	"go/parser"
	"go/token"
	"os"
	"reflect"
	"regexp"
	"strings"
	"testing"
)

const copyASTCorpus = `// Package doc.
package corpus

import (
	"fmt"
	str "strings"
)

// A doc comment.
type Pair[K comparable, V any] struct {
	Key K ` + "`json:\"key\"`" + ` // line comment
	Val V
	embedded
}

type embedded struct{}

type (
	Alias = int
	Fn    func(a, b int, rest ...string) (n int, err error)
	Iface interface {
		M(x int) error
		fmt.Stringer
		~int | ~string
	}
	Ch   <-chan int
	Ch2  chan<- int
	Arr  [4]int
	Sl   []map[string]*Pair[string, int]
	Tree[T interface{ ~int }] struct{ L, R *Tree[T] }
)

const (
	A = iota
	B
)

var x, y = 1, "two"

var p Pair[string, int]

func Map[T any, U any](xs []T, f func(T) U) []U {
	var out []U
	for range xs {
	}
	for i := range xs {
		_ = i
	}
	for _, x := range xs {
		out = append(out, f(x))
	}
	return out
}

func (p *Pair[K, V]) Method(k K) (v V, ok bool) {
	return p.Val, true
}

func all(a int, s []int, m map[string]int, c chan int, i interface{}) (r int, err error) {
	defer func() { recover() }()
	go func(z int) {}(1)
	var arr [3]int
	lit := []int{1, 2, 3}
	kv := map[string]int{"a": 1}
	st := struct{ X, Y int }{X: 1, Y: 2}
	_ = Pair[string, int]{Key: "k"}
	_ = Map[int, string]
	_, _, _, _ = arr, lit, kv, st
	a++
	a--
	a += 2
	a, r = r, a
	b := -a + (a * 2) &^ 3
	_ = !(b > 0 && a < 1 || b == a)
	_ = s[1:2]
	_ = s[:2:3]
	_ = s[a]
	_ = *(&a)
	_ = i.(int)
	_ = str.ToUpper("x") + fmt.Sprint(1.5, 'c', 2i)
	_ = func(v ...int) int { return len(v) }(s...)
L:
	for j := 0; j < 10; j++ {
		if j == 1 {
			continue L
		} else if j == 2 {
			break L
		} else {
			goto M
		}
	}
M:
	switch z := a; {
	case z > 1, z < 0:
		fallthrough
	default:
	}
	switch a {
	case 1:
	}
	switch v := i.(type) {
	case int, string:
		_ = v
	case nil:
	default:
	}
	switch i.(type) {
	}
	select {
	case v, ok := <-c:
		_, _ = v, ok
	case c <- 1:
	default:
	}
	var _ = [...]int{2: 1}
	{
		type local struct{}
		const k = 1
		;
	}
	c <- 1
	<-c
	if v := <-c; v > 0 {
		return v, nil
	}
	for {
		break
	}
	for a < 3 {
		a++
	}
	return
}
`

var (
	caTypeRe  = regexp.MustCompile(`is \*ast\.(\w+)\)`)
	caFieldRe = regexp.MustCompile(`\.\(\*ast\.\w+\)\.(\w+)`)
	caObRe    = regexp.MustCompile(`/(ensures#\d+|requires-preserved#\d+|frame#\d+|loop\d+/inv#\d+|panic#\d+|typeassert#\d+|nilderef#\d+|index#\d+|typednil#\d+|nilelem#\d+|nilmap#\d+)`)
)

type caDiff struct{ typ, field, what string }

func caCompare(o, c reflect.Value, path string, out *[]caDiff, seen map[ast.Node]bool) {
	if o.Kind() == reflect.Interface {
		if o.IsNil() != c.IsNil() {
			*out = append(*out, caDiff{"", "", path + ": nil-ness differs"})
			return
		}
		if o.IsNil() {
			return
		}
		o, c = o.Elem(), c.Elem()
	}
	if o.Type() != c.Type() {
		*out = append(*out, caDiff{strings.TrimPrefix(o.Type().String(), "*ast."), "", fmt.Sprintf("%s: copy has dynamic type %s, original %s", path, c.Type(), o.Type())})
		return
	}
	if o.Kind() != reflect.Ptr {
		return
	}
	if o.IsNil() || c.IsNil() {
		if o.IsNil() != c.IsNil() {
			*out = append(*out, caDiff{strings.TrimPrefix(o.Type().String(), "*ast."), "", path + ": nil-ness differs"})
		}
		return
	}
	tn := o.Type().Elem().Name()
	if tn == "Ident" {
		if o.Pointer() != c.Pointer() {
			*out = append(*out, caDiff{tn, "", path + ": identifier identity not preserved"})
		}
		return
	}
	if o.Pointer() == c.Pointer() {
		*out = append(*out, caDiff{tn, "", path + ": node shared with the original, not copied"})
		return
	}
	os, cs := o.Elem(), c.Elem()
	for i := 0; i < os.NumField(); i++ {
		f := os.Type().Field(i)
		of, cf := os.Field(i), cs.Field(i)
		fp := path + "." + tn + "." + f.Name
		switch of.Kind() {
		case reflect.Ptr, reflect.Interface:
			if _, isNode := of.Interface().(ast.Node); isNode || of.Kind() == reflect.Interface || of.Type().Implements(reflect.TypeOf((*ast.Node)(nil)).Elem()) {
				if of.IsNil() != cf.IsNil() {
					*out = append(*out, caDiff{tn, f.Name, fp + ": child dropped or invented"})
					continue
				}
				var sub []caDiff
				caCompare(of, cf, fp, &sub, seen)
				for _, d := range sub {
					if d.typ == "" {
						d.typ, d.field = tn, f.Name
					}
					*out = append(*out, d)
				}
			}
		case reflect.Slice:
			if of.Len() != cf.Len() || of.IsNil() != cf.IsNil() {
				*out = append(*out, caDiff{tn, f.Name, fmt.Sprintf("%s: list length %d vs %d", fp, of.Len(), cf.Len())})
				continue
			}
			for k := 0; k < of.Len(); k++ {
				var sub []caDiff
				caCompare(of.Index(k), cf.Index(k), fmt.Sprintf("%s[%d]", fp, k), &sub, seen)
				for _, d := range sub {
					if d.typ == "" {
						d.typ, d.field = tn, f.Name
					}
					*out = append(*out, d)
				}
			}
		default:
			if !reflect.DeepEqual(of.Interface(), cf.Interface()) {
				*out = append(*out, caDiff{tn, f.Name, fmt.Sprintf("%s: %v vs %v", fp, of.Interface(), cf.Interface())})
			}
		}
	}
}

func TestReplay_copyAST(t *testing.T) {
	obName := os.Getenv("GOVC_OBLIGATION")
	text := os.Getenv("GOVC_CLAUSE_TEXT")
	clause := ""
	if m := caObRe.FindStringSubmatch(obName); m != nil {
		clause = m[1]
	}
	clause = replayClause(clause)
	wantType, wantField := "", ""
	if m := caTypeRe.FindStringSubmatch(text); m != nil {
		wantType = m[1]
	}
	if m := caFieldRe.FindStringSubmatch(text); m != nil {
		wantField = m[1]
	}
	fset := token.NewFileSet()
	f, err := parser.ParseFile(fset, "corpus.go", copyASTCorpus, parser.ParseComments)
	if err != nil {
		t.Fatalf("corpus does not parse: %v", err)
	}
	n := 0
	for _, d := range f.Decls {
		var cp ast.Node
		func() {
			defer func() {
				if r := recover(); r != nil {
					n++
					fmt.Printf("REPLAY-FAIL fn=wire:copyAST$1 clause=%s copyAST panics on declaration at %s: %v\n", clause, fset.Position(d.Pos()), r)
				}
			}()
			cp = copyAST(d)
		}()
		if cp == nil {
			continue
		}
		var diffs []caDiff
		caCompare(reflect.ValueOf(&d).Elem(), reflect.ValueOf(&cp).Elem(), "decl@"+fset.Position(d.Pos()).String(), &diffs, map[ast.Node]bool{})
		for _, df := range diffs {
			if wantType != "" && df.typ != wantType {
				fmt.Printf("REPLAY-OTHER type=%s field=%s %s\n", df.typ, df.field, df.what)
				continue
			}
			if wantField != "" && df.field != "" && df.field != wantField {
				fmt.Printf("REPLAY-OTHER type=%s field=%s %s\n", df.typ, df.field, df.what)
				continue
			}
			n++
			fmt.Printf("REPLAY-FAIL fn=wire:copyAST$1 clause=%s type=%s field=%s %s\n", clause, df.typ, df.field, df.what)
		}
	}
	fmt.Printf("REPLAY-SUMMARY fn=wire:copyAST$1 decls=%d failures=%d\n", len(f.Decls), n)
}
