package wire

// Replay harness for front-end obligations (C20 and friends): each case is a tiny, type-correct user
// program; the REAL Generate runs on it in-process. A panic (or an accepted program that must be
// rejected) is reported as REPLAY-FAIL with the function and clause it witnesses.

import (
	"context"
	"fmt"
	"io/ioutil"
	"os"
	"path/filepath"
	"regexp"
	"runtime/debug"
	"strings"
	"testing"
)

type frontCase struct {
	name   string
	fn     string // function key of the obligation this case witnesses
	clause string // e.g. typeassert#1
	files  map[string]string
	// wantErr: the program must be rejected with a diagnostic (no panic, no output)
	wantErr bool
	// wantInErrs: every one of these strings must occur in the diagnostics
	wantInErrs []string
	// useLoad: run Load (wire check / wire show) instead of Generate
	useLoad bool
}

const frontWireStub = `package wire
type ProviderSet struct{}
func NewSet(...interface{}) ProviderSet { return ProviderSet{} }
func Build(...interface{}) string { return "" }
type Binding struct{}
func Bind(iface, to interface{}) Binding { return Binding{} }
func bindToUsePointer() {}
type ProvidedValue struct{}
func Value(interface{}) ProvidedValue { return ProvidedValue{} }
func InterfaceValue(typ interface{}, x interface{}) ProvidedValue { return ProvidedValue{} }
type StructProvider struct{}
func Struct(structType interface{}, fieldNames ...string) StructProvider { return StructProvider{} }
type StructFields struct{}
func FieldsOf(structType interface{}, fieldNames ...string) StructFields { return StructFields{} }
`

var frontObRe = regexp.MustCompile(`/(ensures#\d+|requires-preserved#\d+|each#\d+|frame#\d+|loop\d+/inv#\d+|panic#\d+|typeassert#\d+|nilderef#\d+|index#\d+|typednil#\d+)`)

// replayClause: the clause id the verifier looks for (GOVC_CLAUSE), or the harness's own reading of
// GOVC_OBLIGATION.
func replayClause(fallback string) string {
	if c := os.Getenv("GOVC_CLAUSE"); c != "" {
		return c
	}
	return fallback
}

func frontCases() []frontCase {
	hdr := "//+build wireinject\n\npackage main\n\nimport \"github.com/google/wire\"\n\n"
	return []frontCase{
		{name: "StructArgNotNewCall", fn: "wire:processStructProvider", clause: "typeassert#1", wantErr: true, files: map[string]string{
			"wire.go": hdr + "type S struct{ A int }\nvar p = new(S)\nfunc provideInt() int { return 1 }\nfunc inject() *S { wire.Build(provideInt, wire.Struct(p, \"*\")); return nil }\n"}},
		{name: "BindDotImport", fn: "wire:bindShouldUsePointer", clause: "typeassert#1", wantErr: false, files: map[string]string{
			"wire.go": "//+build wireinject\n\npackage main\n\nimport . \"github.com/google/wire\"\n\ntype I interface{ M() }\ntype T struct{}\nfunc (T) M() {}\nfunc provideT() T { return T{} }\nfunc inject() I { Build(provideT, Bind(new(I), new(T))); return nil }\n"}},
		{name: "UnsafePointerZero", fn: "wire:zeroValue", clause: "panic#2", wantErr: false, files: map[string]string{
			"wire.go": "//+build wireinject\n\npackage main\n\nimport (\n\t\"unsafe\"\n\t\"github.com/google/wire\"\n)\n\nfunc provideP() (unsafe.Pointer, error) { return nil, nil }\nfunc inject() (unsafe.Pointer, error) { wire.Build(provideP); return nil, nil }\n"}},
		{name: "FieldsOfPtrToNonStruct", fn: "wire:processFieldsOf", clause: "typednil#1", wantErr: true, files: map[string]string{
			"wire.go": hdr + "func provideInt() int { return 1 }\nfunc inject() int { wire.Build(provideInt, wire.FieldsOf(new(*int), \"x\")); return 0 }\n"}},
		{name: "MultiValueVarSet", fn: "wire:(*objectCache).get", clause: "index#2", wantErr: true, files: map[string]string{
			"wire.go": hdr + "func two() (int, wire.ProviderSet) { return 0, wire.ProviderSet{} }\nvar a, Set = two()\nfunc provideInt() int { return 1 }\nfunc inject() int { wire.Build(provideInt, Set); return a }\n"}},
		{name: "BindPointerReceiver", fn: "wire:processBind", clause: "*", wantErr: true, files: map[string]string{
			"wire.go": hdr + "type Fooer interface{ Foo() }\ntype Bar struct{}\nfunc (b *Bar) Foo() {}\nfunc provideBar() Bar { return Bar{} }\nfunc inject() Fooer { wire.Build(provideBar, wire.Bind(new(Fooer), new(Bar))); return nil }\n"}},
		{name: "BindInterfaceToItself", fn: "wire:processBind", clause: "*", wantErr: true, files: map[string]string{
			"wire.go": hdr + "type Fooer interface{ Foo() }\ntype Bar struct{}\nfunc (b Bar) Foo() {}\nfunc provideFooer() Fooer { return Bar{} }\nfunc inject() Fooer { wire.Build(provideFooer, wire.Bind(new(Fooer), new(Fooer))); return nil }\n"}},
		{name: "BindNotImplemented", fn: "wire:processBind", clause: "*", wantErr: true, files: map[string]string{
			"wire.go": hdr + "type Fooer interface{ Foo() }\ntype Bar struct{}\nfunc provideBar() Bar { return Bar{} }\nfunc inject() Fooer { wire.Build(provideBar, wire.Bind(new(Fooer), new(Bar))); return nil }\n"}},
		{name: "BindWithoutProvider", fn: "wire:buildProviderMap", clause: "*", wantErr: true, files: map[string]string{
			"wire.go": hdr + "type Fooer interface{ Foo() }\ntype Bar struct{}\nfunc (b Bar) Foo() {}\nfunc provideFooer() Fooer { return Bar{} }\nfunc inject() Fooer { wire.Build(wire.Bind(new(Fooer), new(Bar))); return nil }\n"}},
		{name: "StructFieldCaseFold", fn: "wire:checkField", clause: "*", wantErr: true, files: map[string]string{
			"wire.go": hdr + "type S struct {\n\tFoo int\n\tfoo string\n}\nfunc provideInt() int { return 1 }\nfunc inject() S { wire.Build(provideInt, wire.Struct(new(S), \"foo\")); return S{} }\n"}},
		{name: "PreventTagWithOtherKeys", fn: "wire:isPrevented", clause: "*", wantErr: true, files: map[string]string{
			"wire.go": hdr + "type S struct {\n\tA int `json:\"a\" wire:\"-\"`\n}\nfunc provideInt() int { return 1 }\nfunc inject() S { wire.Build(provideInt, wire.Struct(new(S), \"A\")); return S{} }\n"}},
		{name: "StructPointerFormClashesWithEarlierProvider", fn: "wire:buildProviderMap", clause: "*", wantErr: true, files: map[string]string{
			"wire.go": hdr + "type Foo struct{ A int }\ntype Both struct { V Foo; P *Foo }\nfunc provideInt() int { return 1 }\nfunc providePtr() *Foo { return &Foo{} }\nfunc provideBoth(v Foo, p *Foo) Both { return Both{v, p} }\nfunc inject() Both { wire.Build(provideInt, providePtr, provideBoth, wire.Struct(new(Foo), \"A\")); return Both{} }\n"}},
		{name: "TwoMissingInputsBothNamed", fn: "wire:solve", clause: "*", wantErr: true, wantInErrs: []string{"Missing1", "Missing2"}, files: map[string]string{
			"wire.go": hdr + "type Missing1 int\ntype Missing2 int\ntype Mid int\ntype Other int\ntype Top int\ntype Res int\nfunc provideMid(m Missing1) Mid { return 0 }\nfunc provideOther(m Mid) Other { return 0 }\nfunc provideTop(b Missing2, a Mid) Top { return 0 }\nfunc provideRes(o Other, t Top) Res { return 0 }\nfunc inject() Res { wire.Build(provideMid, provideOther, provideTop, provideRes); return 0 }\n"}},
		{name: "SecondFieldUnused", fn: "wire:verifyArgsUsed", clause: "*", wantErr: true, files: map[string]string{
			"wire.go": hdr + "type S struct { A int; B string }\nfunc provideS() S { return S{} }\nfunc inject() int { wire.Build(provideS, wire.FieldsOf(new(S), \"A\", \"B\")); return 0 }\n"}},
		{name: "InjectorWithErrorProviderWithCleanup", fn: "wire:(*gen).inject", clause: "*", wantErr: true, files: map[string]string{
			"wire.go": hdr + "type T int\nfunc provideT() (T, func()) { return 0, func() {} }\nfunc inject() (T, error) { wire.Build(provideT); return 0, nil }\n"}},
		{name: "InjectorWithCleanupProviderWithError", fn: "wire:(*gen).inject", clause: "*", wantErr: true, files: map[string]string{
			"wire.go": hdr + "type T int\nfunc provideT() (T, error) { return 0, nil }\nfunc inject() (T, func()) { wire.Build(provideT); return 0, nil }\n"}},
		{name: "CycleNotReachableFromInjector", fn: "wire:verifyAcyclic", clause: "*", wantErr: true, files: map[string]string{
			"wire.go": hdr + "type A int\ntype B int\ntype C int\nfunc provideA(b B) A { return 0 }\nfunc provideB(a A) B { return 0 }\nfunc provideC() C { return 0 }\nvar Set = wire.NewSet(provideA, provideB, provideC)\nfunc inject() C { wire.Build(Set); return 0 }\n"}},
		{name: "DuplicateParameterTypes", fn: "wire:processFuncProvider", clause: "*", wantErr: true, files: map[string]string{
			"wire.go": hdr + "type T int\nfunc provideInt() int { return 1 }\nfunc provideT(a int, s string, b int) T { return 0 }\nfunc provideString() string { return \"\" }\nfunc inject() T { wire.Build(provideInt, provideString, provideT); return 0 }\n"}},
		{name: "ProviderWithFourResults", fn: "wire:funcOutput", clause: "*", wantErr: true, files: map[string]string{
			"wire.go": hdr + "type T int\nfunc provideT() (T, func(), error, int) { return 0, nil, nil, 0 }\nfunc inject() (T, func(), error) { wire.Build(provideT); return 0, nil, nil }\n"}},
		{name: "CheckAgreesWithGenOnMissingError", fn: "wire:Load", clause: "*", wantErr: true, useLoad: true, files: map[string]string{
			"wire.go": hdr + "type T int\nfunc provideT() (T, error) { return 0, nil }\nfunc inject() T { wire.Build(provideT); return 0 }\n"}},
		{name: "BuildNil", fn: "wire:(*objectCache).get", clause: "nilderef#2", wantErr: true, files: map[string]string{
			"wire.go": hdr + "func provideInt() int { return 1 }\nfunc inject() int { wire.Build(provideInt, nil); return 0 }\n"}},
	}
}

var frontErrText string

func runFrontCase(t *testing.T, c frontCase) (panicked bool, detail string, nerr int, hasContent bool) {
	frontErrText = ""
	dir, err := ioutil.TempDir("", "govc-front-")
	if err != nil {
		t.Fatal(err)
	}
	defer os.RemoveAll(dir)
	wd, _ := os.Getwd()
	root := filepath.Dir(filepath.Dir(wd)) // repo root (test runs in internal/wire)
	gosum, _ := ioutil.ReadFile(filepath.Join(root, "go.sum"))
	write := func(rel, content string) {
		p := filepath.Join(dir, rel)
		os.MkdirAll(filepath.Dir(p), 0755)
		ioutil.WriteFile(p, []byte(content), 0644)
	}
	write("go.mod", "module example.com/app\n\ngo 1.19\n\nrequire github.com/google/wire v0.0.0\n\nreplace github.com/google/wire => ./wirestub\n")
	write("go.sum", string(gosum))
	write("wirestub/go.mod", "module github.com/google/wire\n\ngo 1.19\n")
	write("wirestub/wire.go", frontWireStub)
	write("main.go", "//+build !wireinject\n\npackage main\n\nfunc main() {}\n")
	for n, s := range c.files {
		write(n, s)
	}
	defer func() {
		if r := recover(); r != nil {
			panicked = true
			st := strings.Split(string(debug.Stack()), "\n")
			loc := ""
			for _, l := range st {
				if strings.Contains(l, "internal/wire/") && !strings.Contains(l, "_test.go") {
					loc = strings.TrimSpace(l)
					break
				}
			}
			detail = fmt.Sprintf("panic: %v at %s", r, loc)
		}
	}()
	env := append(os.Environ(), "GOFLAGS=-mod=mod", "GOPROXY=off", "GOSUMDB=off", "GO111MODULE=on")
	if c.useLoad {
		_, lerrs := Load(context.Background(), dir, env, "", []string{"."})
		for _, e := range lerrs {
			frontErrText += e.Error() + "\n"
		}
		return false, "", len(lerrs), false
	}
	gens, errs := Generate(context.Background(), dir, env, []string{"."}, &GenerateOptions{})
	nerr = len(errs)
	for _, e := range errs {
		frontErrText += e.Error() + "\n"
	}
	for _, g := range gens {
		for _, e := range g.Errs {
			frontErrText += e.Error() + "\n"
		}
		nerr += len(g.Errs)
		if len(g.Content) > 0 {
			hasContent = true
		}
	}
	return
}

func TestReplay_frontend(t *testing.T) {
	fails := 0
	obClause := ""
	if m := frontObRe.FindStringSubmatch(os.Getenv("GOVC_OBLIGATION")); m != nil {
		obClause = m[1]
	}
	obClause = replayClause(obClause)
	for _, c := range frontCases() {
		if c.clause == "*" {
			// a semantic case: it witnesses whichever clause of its function failed
			c.clause = obClause
		}
		panicked, detail, nerr, hasContent := runFrontCase(t, c)
		switch {
		case panicked:
			fails++
			fmt.Printf("REPLAY-FAIL fn=%s clause=%s input={%s} detail=%s\n", c.fn, c.clause, c.name, detail)
		case c.wantErr && (nerr == 0 || hasContent):
			fails++
			fmt.Printf("REPLAY-FAIL fn=%s clause=%s input={%s} detail=accepted a program that must be rejected (errors=%d, output=%v)\n", c.fn, c.clause, c.name, nerr, hasContent)
		case func() bool {
			for _, w := range c.wantInErrs {
				if !strings.Contains(frontErrText, w) {
					return true
				}
			}
			return false
		}():
			fails++
			fmt.Printf("REPLAY-FAIL fn=%s clause=%s input={%s} detail=the diagnostics do not name %v: %s\n", c.fn, c.clause, c.name, c.wantInErrs, strings.Replace(frontErrText, "\n", " | ", -1))
		default:
			fmt.Printf("replay ok %s (errors=%d, output=%v)\n", c.name, nerr, hasContent)
		}
	}
	if fails > 0 {
		t.Fail()
	}
}
