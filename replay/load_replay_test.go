package wire

import (
	"context"
	"fmt"
	"io/ioutil"
	"os"
	"path/filepath"
	"testing"
)

// TestReplay_Load: programs on which `wire check` / `wire show` (Load) must report errors, not crash.
func TestReplay_Load(t *testing.T) {
	cases := []struct{ name, clause, src string }{
		{"ProviderSetLiteralVar", "typeassert#2", "//+build wireinject\n\npackage main\n\nimport \"github.com/google/wire\"\n\nvar Set = wire.ProviderSet{}\n"},
	}
	fails := 0
	for _, c := range cases {
		func() {
			dir, _ := ioutil.TempDir("", "govc-load-")
			defer os.RemoveAll(dir)
			wd, _ := os.Getwd()
			root := filepath.Dir(filepath.Dir(wd))
			gosum, _ := ioutil.ReadFile(filepath.Join(root, "go.sum"))
			w := func(rel, content string) {
				p := filepath.Join(dir, rel)
				os.MkdirAll(filepath.Dir(p), 0755)
				ioutil.WriteFile(p, []byte(content), 0644)
			}
			w("go.mod", "module example.com/app\n\ngo 1.19\n\nrequire github.com/google/wire v0.0.0\n\nreplace github.com/google/wire => ./wirestub\n")
			w("go.sum", string(gosum))
			w("wirestub/go.mod", "module github.com/google/wire\n\ngo 1.19\n")
			w("wirestub/wire.go", frontWireStub)
			w("main.go", "//+build !wireinject\n\npackage main\n\nfunc main() {}\n")
			w("wire.go", c.src)
			defer func() {
				if r := recover(); r != nil {
					fails++
					fmt.Printf("REPLAY-FAIL fn=wire:Load clause=%s input={%s} detail=panic: %v\n", c.clause, c.name, r)
				}
			}()
			env := append(os.Environ(), "GOFLAGS=-mod=mod", "GOPROXY=off", "GOSUMDB=off", "GO111MODULE=on")
			_, errs := Load(context.Background(), dir, env, "", []string{"."})
			fmt.Printf("replay ok %s (errors=%d)\n", c.name, len(errs))
		}()
	}
	if fails > 0 {
		t.Fail()
	}
}
