package wire

// Bounded stand-in for the part of C15 that no contract covers: rewritePkgRefs (the second pass over a
// copied declaration: capture-avoiding renaming of local identifiers that collide with names of the
// generated file).  The REAL rewritePkgRefs runs on every program of a template family; the result is
// printed, re-parsed and type-checked again, and compared with the original identifier by identifier:
// every local object must be renamed consistently (a bijection between the local objects before and
// after), every other identifier must still denote the same package-level or predeclared entity.
//
// Bound: the template below (a package-level variable, a helper, one function with a parameter, two
// body-level locals, one local in a nested block, one in a for clause) with every assignment of names
// from a pool of 4 to the 6 nameable entities and 4 sets of import aliases already taken in the generated
// file.  Programs the type checker rejects before rewriting are skipped.  Exhaustive within the bound;
// never counted as proved.

import (
	"bytes"
	"fmt"
	"go/ast"
	"go/parser"
	"go/printer"
	"go/token"
	"go/types"
	"os"
	"strings"
	"testing"

	"golang.org/x/tools/go/packages"
)

const rewriteTemplate = `package p

var {P} = 1

func helper() int { return {P} }

func F({A} int) int {
	{L0} := 10
	{L1} := {A} + 1
	if {L0} > 0 {
		{L2} := {L1} * 2
		{L0} += {L2} + {L1}
	}
	for {L3} := 0; {L3} < 2; {L3}++ {
		{L1} += {L3}
	}
	return {L0} + {L1} + helper()
}
`

func rwCheck(src string) (*token.FileSet, *ast.File, *types.Package, *types.Info, error) {
	fset := token.NewFileSet()
	f, err := parser.ParseFile(fset, "p.go", src, 0)
	if err != nil {
		return nil, nil, nil, nil, err
	}
	info := &types.Info{Types: map[ast.Expr]types.TypeAndValue{}, Defs: map[*ast.Ident]types.Object{}, Uses: map[*ast.Ident]types.Object{},
		Scopes: map[ast.Node]*types.Scope{}, Implicits: map[ast.Node]types.Object{}, Selections: map[*ast.SelectorExpr]*types.Selection{}}
	pkg, err := (&types.Config{}).Check("example.com/p", fset, []*ast.File{f}, info)
	if err != nil {
		return nil, nil, nil, nil, err
	}
	return fset, f, pkg, info, nil
}

func rwIdents(n ast.Node) []*ast.Ident {
	var out []*ast.Ident
	ast.Inspect(n, func(x ast.Node) bool {
		if id, ok := x.(*ast.Ident); ok {
			out = append(out, id)
		}
		return true
	})
	return out
}

func TestBounded_rewritePkgRefs(t *testing.T) {
	pool := []string{"total", "total2", "total3", "x"}
	aliasSets := [][]string{{}, {"total"}, {"total", "total2"}, {"x"}}
	slots := []string{"{P}", "{A}", "{L0}", "{L1}", "{L2}", "{L3}"}
	programs, skipped, fails := 0, 0, 0
	maxShow := 5
	if os.Getenv("GOVC_BOUNDED_SHOW") != "" {
		maxShow = 50
	}
	idx := make([]int, len(slots))
	for {
		src := rewriteTemplate
		for i, s := range slots {
			src = strings.Replace(src, s, pool[idx[i]], -1)
		}
		fset, f, pkg, info, err := rwCheck(src)
		if err != nil {
			skipped++
		} else {
			for _, aliases := range aliasSets {
				programs++
				g := newGen(&packages.Package{PkgPath: "example.com/p", Types: pkg, TypesInfo: info, Fset: fset})
				for i, a := range aliases {
					g.imports[fmt.Sprintf("example.org/dep%d", i)] = importInfo{name: a}
				}
				var fn *ast.FuncDecl
				for _, d := range f.Decls {
					if fd, ok := d.(*ast.FuncDecl); ok && fd.Name.Name == "F" {
						fn = fd
					}
				}
				var out ast.Node
				msg := ""
				func() {
					defer func() {
						if r := recover(); r != nil {
							msg = fmt.Sprintf("panic: %v", r)
						}
					}()
					out = g.rewritePkgRefs(info, fn)
				}()
				if msg == "" {
					msg = rwCompare(fset, src, f, fn, info, pkg, out)
				}
				if msg != "" {
					fails++
					if fails <= maxShow {
						var b bytes.Buffer
						if out != nil {
							printer.Fprint(&b, fset, out)
						}
						fmt.Printf("BOUNDED-FAIL fn=wire:(*gen).rewritePkgRefs names=%v aliases=%v: %s | rewritten: %s\n", namesOf(pool, idx), aliases, msg, strings.Join(strings.Fields(b.String()), " "))
					}
				}
			}
		}
		// next assignment
		k := 0
		for k < len(idx) {
			idx[k]++
			if idx[k] < len(pool) {
				break
			}
			idx[k] = 0
			k++
		}
		if k == len(idx) {
			break
		}
	}
	fmt.Printf("BOUNDED-SUMMARY fn=wire:(*gen).rewritePkgRefs pool=%d slots=%d aliasSets=%d programs=%d skipped_illtyped=%d mismatches=%d\n", len(pool), len(slots), len(aliasSets), programs, skipped, fails)
}

func namesOf(pool []string, idx []int) []string {
	var out []string
	for _, i := range idx {
		out = append(out, pool[i])
	}
	return out
}

// rwCompare prints the package with the rewritten F, type-checks it again and compares identifiers.
func rwCompare(fset *token.FileSet, src string, f *ast.File, fn *ast.FuncDecl, info *types.Info, pkg *types.Package, out ast.Node) string {
	var b bytes.Buffer
	b.WriteString("package p\n\n")
	for _, d := range f.Decls {
		if d == ast.Decl(fn) {
			if err := printer.Fprint(&b, fset, out); err != nil {
				return "cannot print the rewritten declaration: " + err.Error()
			}
		} else {
			printer.Fprint(&b, fset, d)
		}
		b.WriteString("\n\n")
	}
	_, f2, pkg2, info2, err := rwCheck(b.String())
	if err != nil {
		return "rewritten declaration does not type-check: " + err.Error()
	}
	var fn2 *ast.FuncDecl
	for _, d := range f2.Decls {
		if fd, ok := d.(*ast.FuncDecl); ok && fd.Name.Name == "F" {
			fn2 = fd
		}
	}
	ids1, ids2 := rwIdents(fn), rwIdents(fn2)
	if len(ids1) != len(ids2) {
		return fmt.Sprintf("identifier count changed: %d vs %d", len(ids1), len(ids2))
	}
	fwd := map[types.Object]types.Object{}
	bwd := map[types.Object]types.Object{}
	for i := range ids1 {
		o1, o2 := info.ObjectOf(ids1[i]), info2.ObjectOf(ids2[i])
		if o1 == nil || o2 == nil {
			if (o1 == nil) != (o2 == nil) {
				return fmt.Sprintf("identifier %d (%s -> %s): resolved on one side only", i, ids1[i].Name, ids2[i].Name)
			}
			continue
		}
		local1 := o1.Parent() != pkg.Scope() && o1.Parent() != types.Universe && o1.Pkg() == pkg
		local2 := o2.Parent() != pkg2.Scope() && o2.Parent() != types.Universe && o2.Pkg() == pkg2
		if local1 != local2 {
			return fmt.Sprintf("identifier %d (%s -> %s): local vs package-level changed (captured)", i, ids1[i].Name, ids2[i].Name)
		}
		if !local1 {
			if o1.Name() != o2.Name() || fmt.Sprintf("%T", o1) != fmt.Sprintf("%T", o2) {
				return fmt.Sprintf("identifier %d: %s now denotes %s", i, o1.Name(), o2.Name())
			}
			continue
		}
		if p, ok := fwd[o1]; ok && p != o2 {
			return fmt.Sprintf("identifier %d (%s -> %s): the same variable is renamed inconsistently / now denotes another variable", i, ids1[i].Name, ids2[i].Name)
		}
		if p, ok := bwd[o2]; ok && p != o1 {
			return fmt.Sprintf("identifier %d (%s -> %s): two different variables now share one (capture)", i, ids1[i].Name, ids2[i].Name)
		}
		fwd[o1], bwd[o2] = o2, o1
	}
	return ""
}
