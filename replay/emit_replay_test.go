package wire

// Replay harness (injected into the real package with `go test -overlay`; never written to /repo).
// Each TestReplay_* function runs the REAL function on a small concrete input space and evaluates
// the contract clauses concretely; a line "REPLAY-FAIL fn=<key> clause=<name> input=<...>" is printed
// for every input on which a clause is violated.

import (
	"fmt"
	"go/token"
	"go/types"
	"strings"
	"testing"

	"golang.org/x/tools/go/packages"
)

func replayGen() *gen {
	pkg := &packages.Package{PkgPath: "example.com/app", Name: "app", Fset: token.NewFileSet(), Types: types.NewPackage("example.com/app", "app")}
	return newGen(pkg)
}

func replayNamed(pkg *types.Package, name string) types.Type {
	tn := types.NewTypeName(token.NoPos, pkg, name, nil)
	return types.NewNamed(tn, types.NewStruct(nil, nil), nil)
}

// TestReplay_funcProviderCall checks the C03/C04 clauses of (*injectorGen).funcProviderCall.
func TestReplay_funcProviderCall(t *testing.T) {
	fails := 0
	for _, errVar := range []string{"err", "err2"} {
		for prev := 0; prev <= 5; prev++ {
			for mask := 0; mask < 16; mask++ {
				hasErr, hasCleanup, sigCleanup, discard := mask&1 != 0, mask&2 != 0, mask&4 != 0, mask&8 != 0
				g := replayGen()
				dep := types.NewPackage("example.com/dep", "dep")
				ig := &injectorGen{g: g, errVar: errVar, discard: discard, paramNames: []string{"a0"}, localNames: []string{"l0", "lcur"}}
				var old []string
				for i := 0; i < prev; i++ {
					old = append(old, fmt.Sprintf("cleanup%d", i+7))
				}
				ig.cleanupNames = append([]string(nil), old...)
				c := &call{kind: funcProviderCall, pkg: dep, name: "NewX", args: []int{0, 1}, hasErr: hasErr, hasCleanup: hasCleanup, out: replayNamed(dep, "X")}
				sig := outputSignature{out: types.NewPointer(replayNamed(dep, "R")), cleanup: sigCleanup, err: true}
				ig.funcProviderCall("lcur", c, sig)
				out := g.buf.String()
				in := fmt.Sprintf("errVar=%s prev=%d hasErr=%v hasCleanup=%v sig.cleanup=%v discard=%v", errVar, prev, hasErr, hasCleanup, sigCleanup, discard)
				report := func(clause, detail string) {
					fails++
					fmt.Printf("REPLAY-FAIL fn=wire:(*injectorGen).funcProviderCall clause=%s input={%s} detail=%s\n", clause, in, detail)
				}
				if discard {
					if out != "" {
						report("ensures#3", "output while discard")
					}
					continue
				}
				lines := strings.Split(strings.TrimRight(out, "\n"), "\n")
				if !hasErr {
					if strings.Contains(out, "!= nil {") || strings.Contains(out, "return ") {
						report("ensures#11", "error branch emitted for provider without error")
					}
					continue
				}
				// error branch: "\tif <errVar> != nil {", prev cleanup calls (reverse), return line, "\t}"
				if lines[len(lines)-1] != "\t}" {
					report("ensures#5", "last line "+lines[len(lines)-1])
				}
				ret := lines[len(lines)-2]
				if !strings.HasSuffix(ret, ", "+errVar) {
					report("ensures#6", "return line does not end with the error variable: "+strings.TrimSpace(ret))
				}
				if sigCleanup && !strings.Contains(ret, ", nil, ") {
					report("ensures#7", "no nil cleanup in "+strings.TrimSpace(ret))
				}
				if !strings.HasPrefix(ret, "\t\treturn ") {
					report("ensures#8", "return line "+ret)
				}
				for j := 0; j < prev; j++ {
					want := "\t\t" + old[j] + "()"
					if got := lines[len(lines)-3-j]; got != want {
						report("ensures#9", fmt.Sprintf("cleanup line %d is %q want %q", j, got, want))
					}
				}
				if got, want := lines[len(lines)-3-prev], "\tif "+errVar+" != nil {"; got != want {
					report("ensures#10", fmt.Sprintf("if line %q want %q", got, want))
				}
				wantNames := len(old)
				if hasCleanup {
					wantNames++
				}
				if len(ig.cleanupNames) != wantNames {
					report("ensures#1", fmt.Sprintf("cleanupNames has %d entries", len(ig.cleanupNames)))
				}
			}
		}
	}
	if fails > 0 {
		t.Fail()
	}
}
