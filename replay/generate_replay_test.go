package wire

// End-to-end replay harness for obligations about what is EMITTED (injectPass, the four emitters, solve,
// inject, qualifyImport, frame, zeroValue, the struct / field / value front-end functions): a corpus of
// small, well-formed programs that together use every documented Wire form goes through the REAL
// Generate; the package is then built with the real `go build` (default build tags, wire_gen.go standing
// in for the injector templates) and run; each program prints a line that depends on every injected
// value, which is compared with the expected text.  A program that wire rejects, whose output does not
// compile, or that prints something else is a concrete failing input for the clause named in
// GOVC_OBLIGATION (function GOVC_FN).

import (
	"context"
	"fmt"
	"io/ioutil"
	"os"
	"os/exec"
	"path/filepath"
	"regexp"
	"strings"
	"testing"
)

type genCase struct {
	name  string
	wire  string // injector file (after the standard header)
	main  string // main.go body (package main; must print `want`)
	want  string
	extra map[string]string
}

const genWireStub = `package wire
type ProviderSet struct{}
func NewSet(...interface{}) ProviderSet { return ProviderSet{} }
func Build(...interface{}) string { return "" }
type Binding struct{}
func Bind(iface, to interface{}) Binding { return Binding{} }
func bindToUsePointer() {}
type ProvidedValue struct{}
func Value(interface{}) ProvidedValue { return ProvidedValue{} }
func InterfaceValue(typ interface{}, x interface{}) ProvidedValue { return ProvidedValue{} }
type StructProvider struct{}
func Struct(structType interface{}, fieldNames ...string) StructProvider { return StructProvider{} }
type StructFields struct{}
func FieldsOf(structType interface{}, fieldNames ...string) StructFields { return StructFields{} }
`

func genCases() []genCase {
	return []genCase{
		{name: "ChainErrCleanup", want: "baz:foo+bar cleanup:bar,foo",
			wire: `func injectBaz() (Baz, func(), error) { wire.Build(provideFoo, provideBar, provideBaz); return Baz(""), nil, nil }`,
			main: `import ("fmt"; "strings")
type Foo string
type Bar string
type Baz string
var log []string
func provideFoo() (Foo, func(), error) { return "foo", func() { log = append(log, "foo") }, nil }
func provideBar(f Foo) (Bar, func()) { return Bar(string(f) + "+bar"), func() { log = append(log, "bar") } }
func provideBaz(b Bar) (Baz, error) { return Baz("baz:" + string(b)), nil }
func main() { b, c, err := injectBaz(); if err != nil { panic(err) }; c(); fmt.Println(string(b), "cleanup:"+strings.Join(log, ",")) }`},
		{name: "ErrorUnwinds", want: "err:boom cleanup:foo zero:0",
			wire: `func injectN() (N, func(), error) { wire.Build(provideFoo, provideBad, provideN); return 0, nil, nil }`,
			main: `import ("errors"; "fmt"; "strings")
type Foo string
type Bad string
type N int
var log []string
func provideFoo() (Foo, func()) { return "foo", func() { log = append(log, "foo") } }
func provideBad(f Foo) (Bad, func(), error) { return "", func() { log = append(log, "bad") }, errors.New("boom") }
func provideN(b Bad) N { return 7 }
func main() { n, c, err := injectN(); if c != nil { c() }; fmt.Printf("err:%v cleanup:%s zero:%d\n", err, strings.Join(log, ","), n) }`},
		{name: "StructValueAndPointer", want: "S{1 one <nil>} *S{1 one}",
			wire: `func injectS() S { wire.Build(provideInt, provideString, wire.Struct(new(S), "A", "B")); return S{} }
func injectPS() *S { wire.Build(provideInt, provideString, wire.Struct(new(S), "*")); return nil }`,
			main: `import "fmt"
type S struct { A int; B string; C *int ` + "`wire:\"-\"`" + ` }
func provideInt() int { return 1 }
func provideString() string { return "one" }
func main() { s := injectS(); p := injectPS(); fmt.Printf("S{%d %s %v} *S{%d %s}\n", s.A, s.B, s.C, p.A, p.B) }`},
		{name: "FieldsOfPointerAliases", want: "5 true",
			wire: `func injectPI() *int { wire.Build(provideS, wire.FieldsOf(new(*S), "A")); return nil }
func injectI() int { wire.Build(provideSV, wire.FieldsOf(new(S), "A")); return 0 }`,
			main: `import "fmt"
type S struct { A int; B string }
var theS = &S{A: 5}
func provideS() *S { return theS }
func provideSV() S { return *theS }
func main() { p := injectPI(); fmt.Println(injectI(), p == &theS.A) }`},
		{name: "ValuesAndBinding", want: "hello 42 bound:T",
			wire: `func injectGreeting() Greeting { wire.Build(wire.Value(Greeting("hello"))); return "" }
func injectAnswer() int { wire.Build(wire.Value(40 + 2)); return 0 }
func injectI() I { wire.Build(provideT, wire.Bind(new(I), new(T))); return nil }`,
			main: `import "fmt"
type Greeting string
type I interface{ Name() string }
type T struct{}
func (T) Name() string { return "T" }
func provideT() T { return T{} }
func main() { fmt.Println(string(injectGreeting()), injectAnswer(), "bound:"+injectI().Name()) }`},
		{name: "VariadicInjectorAndArgs", want: "a,b|3 x",
			wire: `func injectJoined(prefix Prefix, parts ...string) Joined { wire.Build(provideJoined); return "" }
func injectArgsOnly(n int, s string) Pair { wire.Build(wire.Struct(new(Pair), "*")); return Pair{} }`,
			main: `import ("fmt"; "strings")
type Prefix string
type Joined string
type Pair struct { N int; S string }
func provideJoined(p Prefix, parts []string) Joined { return Joined(string(p) + strings.Join(parts, ",")) }
func main() { p := injectArgsOnly(3, "x"); fmt.Println(string(injectJoined("", "a", "b"))+"|"+fmt.Sprint(p.N), p.S) }`},
		{name: "AdversarialNames", want: "1 2 3",
			wire: `func injectOut(err ErrT, cleanup CleanupT) (Out, func(), error) { wire.Build(provideA, provideOut); return Out{}, nil, nil }`,
			main: `import "fmt"
type ErrT int
type CleanupT int
type A int
type Out struct{ E ErrT; C CleanupT; A A }
func provideA(e ErrT) (A, func(), error) { return A(3), func() {}, nil }
func provideOut(e ErrT, c CleanupT, a A) (Out, func(), error) { return Out{e, c, a}, func() {}, nil }
func main() { o, c, err := injectOut(1, 2); if err != nil { panic(err) }; c(); fmt.Println(o.E, o.C, o.A) }`},
		{name: "ThreeCleanupsThenError", want: "err:boom cleanup:c,b,a",
			wire: `func injectD() (D, func(), error) { wire.Build(provideA, provideB, provideC, provideD); return 0, nil, nil }`,
			main: `import ("errors"; "fmt"; "strings")
type A int
type B int
type C int
type D int
var log []string
func provideA() (A, func()) { return 1, func() { log = append(log, "a") } }
func provideB(a A) (B, func(), error) { return 2, func() { log = append(log, "b") }, nil }
func provideC(b B) (C, func()) { return 3, func() { log = append(log, "c") } }
func provideD(c C) (D, func(), error) { return 0, func() { log = append(log, "d") }, errors.New("boom") }
func main() { _, c, err := injectD(); if c != nil { c() }; fmt.Printf("err:%v cleanup:%s\n", err, strings.Join(log, ",")) }`},
		{name: "ArrayAndNamedResultsOnErrorPath", want: "[0 0] [0 0 0 0] {0 } boom",
			wire: `func injectArr() ([2]int, error) { wire.Build(provideArr); return [2]int{}, nil }
func injectDigest() (Digest, error) { wire.Build(provideDigest); return Digest{}, nil }
func injectRec() (Rec, error) { wire.Build(provideRec); return Rec{}, nil }`,
			main: `import ("errors"; "fmt")
type Digest [4]byte
type Rec struct { N int; S string }
func provideArr() ([2]int, error) { return [2]int{1, 2}, errors.New("boom") }
func provideDigest() (Digest, error) { return Digest{1}, errors.New("boom") }
func provideRec() (Rec, error) { return Rec{1, "x"}, errors.New("boom") }
func main() { a, err := injectArr(); d, _ := injectDigest(); r, _ := injectRec(); fmt.Println(a, d, r, err) }`},
		{name: "TypeNamedCleanupAndErr", want: "3 4 done",
			wire: `func injectBoth() (Both, func(), error) { wire.Build(provideCleanup, provideErr, provideBoth); return Both{}, nil, nil }`,
			main: `import "fmt"
type Cleanup int
type Err int
type Both struct { C Cleanup; E Err }
var done string
func provideCleanup() (Cleanup, func(), error) { return 3, func() { done = "done" }, nil }
func provideErr(c Cleanup) (Err, func(), error) { return 4, func() {}, nil }
func provideBoth(c Cleanup, e Err) Both { return Both{c, e} }
func main() { b, c, err := injectBoth(); if err != nil { panic(err) }; c(); fmt.Println(b.C, b.E, done) }`},
		{name: "PreventTagWithOtherKeys", want: "1 0",
			wire: `func injectT() T { wire.Build(provideInt, wire.Struct(new(T), "*")); return T{} }`,
			main: `import "fmt"
type Skipped int
type T struct { A int; B Skipped ` + "`json:\"b\" wire:\"-\"`" + ` }
func provideInt() int { return 1 }
func main() { t := injectT(); fmt.Println(t.A, t.B) }`},
		{name: "ImportedPackageAndNestedSet", want: "dep:7 dep:7",
			wire: `func injectUser() User { wire.Build(dep.Set, provideUser); return User{} }`,
			main: `import ("fmt"; "example.com/app/dep")
type User struct{ T *dep.Thing; N dep.Num }
func provideUser(t *dep.Thing, n dep.Num) User { return User{t, n} }
func main() { u := injectUser(); fmt.Println(u.T.String(), fmt.Sprintf("dep:%d", int(u.N))) }`,
			extra: map[string]string{"dep/dep.go": `package dep
import ("fmt"; "github.com/google/wire")
type Num int
type Thing struct{ n Num }
func (t *Thing) String() string { return fmt.Sprintf("dep:%d", int(t.n)) }
func NewNum() Num { return 7 }
func NewThing(n Num) *Thing { return &Thing{n} }
var Set = wire.NewSet(NewNum, NewThing)
`}},
	}
}

var genObRe = regexp.MustCompile(`/(ensures#\d+|lensures#\d+|requires@[^ ]*#\d+|atnew:[A-Za-z]*#\d+|requires-preserved#\d+|each#\d+|frame#\d+|loop\d+/inv#\d+|panic#\d+|typeassert#\d+|nilderef#\d+|index#\d+|typednil#\d+|contract-mismatch)`)

func TestReplay_generate(t *testing.T) {
	fn := os.Getenv("GOVC_FN")
	if fn == "" {
		fn = "wire:injectPass"
	}
	clause := ""
	if m := genObRe.FindStringSubmatch(os.Getenv("GOVC_OBLIGATION")); m != nil {
		clause = m[1]
	}
	clause = replayClause(clause)
	wd, _ := os.Getwd()
	root := filepath.Dir(filepath.Dir(wd))
	gosum, _ := ioutil.ReadFile(filepath.Join(root, "go.sum"))
	fails := 0
	for _, c := range genCases() {
		dir, err := ioutil.TempDir("", "govc-gen-")
		if err != nil {
			t.Fatal(err)
		}
		write := func(rel, content string) {
			p := filepath.Join(dir, rel)
			os.MkdirAll(filepath.Dir(p), 0755)
			ioutil.WriteFile(p, []byte(content), 0644)
		}
		write("go.mod", "module example.com/app\n\ngo 1.19\n\nrequire github.com/google/wire v0.0.0\n\nreplace github.com/google/wire => ./wirestub\n")
		write("go.sum", string(gosum))
		write("wirestub/go.mod", "module github.com/google/wire\n\ngo 1.19\n")
		write("wirestub/wire.go", genWireStub)
		imp := "import \"github.com/google/wire\"\n"
		if strings.Contains(c.wire, "dep.") {
			imp = "import (\n\t\"example.com/app/dep\"\n\t\"github.com/google/wire\"\n)\n"
		}
		write("wire.go", "//go:build wireinject\n// +build wireinject\n\npackage main\n\n"+imp+"\n"+c.wire+"\n")
		write("main.go", "package main\n\n"+c.main+"\n")
		for n, s := range c.extra {
			write(n, s)
		}
		env := append(os.Environ(), "GOFLAGS=-mod=mod", "GOPROXY=off", "GOSUMDB=off", "GO111MODULE=on", "GOTOOLCHAIN=local")
		detail := ""
		func() {
			defer func() {
				if r := recover(); r != nil {
					detail = fmt.Sprintf("Generate panics: %v", r)
				}
			}()
			gens, errs := Generate(context.Background(), dir, env, []string{"."}, &GenerateOptions{})
			if len(errs) > 0 {
				detail = fmt.Sprintf("well-formed program rejected: %v", errs[0])
				return
			}
			for _, g := range gens {
				if len(g.Errs) > 0 {
					detail = fmt.Sprintf("well-formed program rejected: %v", g.Errs[0])
					return
				}
				if len(g.Content) > 0 {
					if err := g.Commit(); err != nil {
						detail = "cannot write output: " + err.Error()
						return
					}
				}
			}
			cmd := exec.Command("go", "run", ".")
			cmd.Dir = dir
			cmd.Env = env
			out, err := cmd.CombinedOutput()
			got := strings.TrimSpace(string(out))
			if err != nil {
				lines := strings.Split(got, "\n")
				if len(lines) > 4 {
					lines = lines[:4]
				}
				detail = "generated package does not build/run: " + strings.Join(lines, " | ")
				return
			}
			if got != c.want {
				detail = fmt.Sprintf("generated injectors behave differently: printed %q, want %q", got, c.want)
			}
		}()
		os.RemoveAll(dir)
		if detail != "" {
			fails++
			fmt.Printf("REPLAY-FAIL fn=%s clause=%s input={%s} detail=%s\n", fn, clause, c.name, strings.Replace(detail, "\n", " ", -1))
		} else {
			fmt.Printf("replay ok %s\n", c.name)
		}
	}
	fmt.Printf("REPLAY-SUMMARY generate cases=%d failures=%d\n", len(genCases()), fails)
}
