package main

// Replay harness for the command-line contracts (C17); injected with go test -overlay.

import (
	"context"
	"flag"
	"fmt"
	"os"
	"path/filepath"
	"testing"
)

// TestReplay_diffCmd: `wire diff` with an unusable header file cannot complete the comparison and
// must return status 2 (clause ensures#3: status 1 implies a diff was printed).
func TestReplay_diffCmd(t *testing.T) {
	dir := t.TempDir()
	cmd := &diffCmd{headerFile: filepath.Join(dir, "does-not-exist.txt")}
	fs := flag.NewFlagSet("diff", flag.ContinueOnError)
	fs.Parse([]string{"."})
	old, _ := os.Getwd()
	os.Chdir(dir)
	defer os.Chdir(old)
	st := cmd.Execute(context.Background(), fs)
	if st == 1 {
		fmt.Printf("REPLAY-FAIL fn=main:(*diffCmd).Execute clause=ensures#3 input={-header_file <missing file>} detail=exit status 1 although no diff was printed (the comparison could not be made; expected 2)\n")
		t.Fail()
	}
}
