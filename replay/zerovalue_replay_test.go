package wire

// Replay harness for zeroValue (C01): the REAL zeroValue is called on one type of every kind (named
// and unnamed) and its result is compiled by the Go type checker as `var _ T = <result>` in a
// package that declares the named types; a result the checker rejects, or one that is not the zero
// value, is a concrete failing input for the clause named in GOVC_OBLIGATION.

import (
	"fmt"
	"go/ast"
	"go/importer"
	"go/parser"
	"go/token"
	"go/types"
	"os"
	"regexp"
	"testing"
)

var zvObRe = regexp.MustCompile(`/(ensures#\d+|panic#\d+)`)

func TestReplay_zeroValue(t *testing.T) {
	clause := ""
	if m := zvObRe.FindStringSubmatch(os.Getenv("GOVC_OBLIGATION")); m != nil {
		clause = m[1]
	}
	clause = replayClause(clause)
	const src = `package p
import "unsafe"
type S struct{ A int }
type Arr [4]byte
type I interface{ M() }
type F func(int) string
type M map[string]int
type B bool
type N int32
type Fl float64
type C complex128
type Str string
type Ch chan int
type Sl []int
type P *int
type U unsafe.Pointer
var (
	v01 S; v02 Arr; v03 [2]int; v04 struct{ X string }; v05 I; v06 F; v07 M; v08 B; v09 N; v10 Fl; v11 C
	v12 Str; v13 Ch; v14 Sl; v15 P; v16 U; v17 bool; v18 uint8; v19 string; v20 *S; v21 []S; v22 map[int]S
	v23 chan S; v24 func(); v25 interface{}; v26 error; v27 uintptr; v28 rune; v29 float32; v30 complex64
	v31 unsafe.Pointer; v32 [0]S; v33 [3][2]int
)
`
	fset := token.NewFileSet()
	f, err := parser.ParseFile(fset, "p.go", src, 0)
	if err != nil {
		t.Fatal(err)
	}
	conf := types.Config{Importer: importer.Default()}
	pkg, err := conf.Check("p", fset, []*ast.File{f}, nil)
	if err != nil {
		t.Fatal(err)
	}
	qf := func(p *types.Package) string {
		if p == pkg {
			return ""
		}
		return p.Name()
	}
	n := 0
	for _, name := range pkg.Scope().Names() {
		v, ok := pkg.Scope().Lookup(name).(*types.Var)
		if !ok {
			continue
		}
		var z string
		func() {
			defer func() {
				if r := recover(); r != nil {
					n++
					fmt.Printf("REPLAY-FAIL fn=wire:zeroValue clause=%s zeroValue(%s) panics: %v\n", clause, v.Type(), r)
				}
			}()
			z = zeroValue(v.Type(), qf)
		}()
		if z == "" {
			continue
		}
		// the expression must type-check as a value of the type and be its zero value
		check := src + fmt.Sprintf("\nvar chk %s = %s\n", types.TypeString(v.Type(), qf), z)
		fs2 := token.NewFileSet()
		f2, err := parser.ParseFile(fs2, "p.go", check, 0)
		if err == nil {
			_, err = (&types.Config{Importer: importer.Default()}).Check("p", fs2, []*ast.File{f2}, nil)
		}
		if err != nil {
			n++
			fmt.Printf("REPLAY-FAIL fn=wire:zeroValue clause=%s zeroValue(%s) = %q does not compile as a value of that type: %v\n", clause, v.Type(), z, err)
		}
	}
	fmt.Printf("REPLAY-SUMMARY fn=wire:zeroValue failures=%d\n", n)
}
