#!/bin/bash
# Must-fail / must-stay-green corpus for the engine: each *.patch is applied to a scratch copy of
# /repo; the first line of the patch file is "# expect: <property> <FAIL|PASS> [obligation substring]".
# usage: selftest/run.sh [pattern]
set -u
cd "$(dirname "$0")/.."
export GOFLAGS=-mod=mod GOPROXY=off GOSUMDB=off GOTOOLCHAIN=local
PAT="${1:-}"
SCR=$(mktemp -d /tmp/govc-selftest-XXXXXX)
trap 'rm -rf "$SCR"' EXIT
rc=0
for p in selftest/*.patch; do
  case "$p" in *"$PAT"*) ;; *) continue;; esac
  exp=$(head -1 "$p" | sed 's/^# expect: //')
  prop=$(echo "$exp" | awk '{print $1}'); want=$(echo "$exp" | awk '{print $2}'); sub=$(echo "$exp" | cut -d' ' -f3-)
  rm -rf "$SCR/r"; mkdir -p "$SCR/r"; rsync -a --exclude .git /repo/ "$SCR/r/"
  if ! (cd "$SCR/r" && patch -p1 -s < "$OLDPWD/$p"); then echo "SELFTEST $p: patch does not apply"; rc=1; continue; fi
  if ! (cd "$SCR/r" && go build ./... 2>/dev/null); then echo "SELFTEST $p: mutant does not compile"; rc=1; continue; fi
  out=$(VERIF_DIR=/verif bin/govc check -repo "$SCR/r" -prop "$prop" -no-evidence 2>&1)
  if echo "$out" | grep -q "^VIOLATION"; then got=FAIL; else got=PASS; fi
  if echo "$out" | grep -q "engine error"; then got=ERROR; fi
  ok=1
  [ "$got" = "$want" ] || ok=0
  if [ $ok = 1 ] && [ "$want" = FAIL ] && [ -n "$sub" ]; then echo "$out" | grep -q -- "$sub" || ok=0; fi
  if [ $ok = 1 ]; then echo "selftest ok   $p ($prop $want)"; else echo "SELFTEST MISMATCH $p: wanted $want '$sub', got $got"; echo "$out" | grep -E "obligation|engine" | head -5; rc=1; fi
done
exit $rc
