package main

// runConcretiser tries to reproduce a failed obligation on the real code.
func runConcretiser(v *Verifier, prop string, ob *Obligation, rp *Replay) {
	rp.Notes = append(rp.Notes, "no concretiser registered for this obligation; the solver output is attached")
}
