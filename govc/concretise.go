package main

import (
	"encoding/json"
	"fmt"
	"os"
	"os/exec"
	"path/filepath"
	"regexp"
	"strings"
)

// replayTests maps a function key to the replay test (in /verif/replay) that exercises the REAL
// function on a concrete input space and evaluates its contract clauses.
var replayTests = map[string]string{
	"wire:Load":                              "TestReplay_Load|TestReplay_frontend",
	"wire:verifyCalls":                       "TestReplay_frontend",
	"wire:processStructLiteralProvider":      "TestReplay_frontend",
	"wire:processFuncProvider":               "TestReplay_frontend",
	"wire:verifyAcyclic":                     "TestReplay_frontend",
	"wire:(*injectorGen).funcProviderCall":   "TestReplay_funcProviderCall",
	"wire:injectPass":                        "TestReplay_generate",
	"wire:(*injectorGen).structProviderCall": "TestReplay_generate",
	"wire:(*injectorGen).fieldExpr":          "TestReplay_generate",
	"wire:(*injectorGen).valueExpr":          "TestReplay_generate",
	"wire:(*injectorGen).nameInInjector":     "TestReplay_generate",
	"wire:disambiguate":                      "TestReplay_generate",
	"wire:typeVariableName":                  "TestReplay_generate",
	"wire:(*gen).qualifyImport":              "TestReplay_generate",
	"wire:(*gen).frame":                      "TestReplay_generate",
	"wire:processFieldsOf":                   "TestReplay_generate",
	"wire:processValue":                      "TestReplay_generate",
	"wire:generateInjectors":                 "TestReplay_generate",
	"wire:funcOutput":                        "TestReplay_generate|TestReplay_frontend",
	"wire:buildProviderMap":                  "TestReplay_generate|TestReplay_frontend",
	"wire:buildProviderMap$1":                "TestReplay_generate|TestReplay_frontend",
	"wire:verifyArgsUsed":                    "TestReplay_frontend",
	"wire:checkField":                        "TestReplay_generate|TestReplay_frontend",
	"wire:isPrevented":                       "TestReplay_generate|TestReplay_frontend",
	"wire:solve":                             "TestReplay_generate|TestReplay_frontend",
	"wire:(*gen).inject":                     "TestReplay_generate|TestReplay_frontend",
	"wire:processStructProvider":             "TestReplay_generate|TestReplay_frontend",
	"wire:bindShouldUsePointer":              "TestReplay_frontend",
	"wire:(*objectCache).get":                "TestReplay_frontend",
	"wire:copyAST$1":                         "TestReplay_copyAST",
	"wire:processInterfaceValue":             "TestReplay_frontend",
	"wire:processBind":                       "TestReplay_generate|TestReplay_frontend",
	"wire:zeroValue":                         "TestReplay_zeroValue",
	"main:(*diffCmd).Execute":                "TestReplay_diffCmd",
	"main:(*genCmd).Execute":                 "TestReplay_genCmd",
}

var clauseRe = regexp.MustCompile(`/(ensures#\d+|lensures#\d+|requires@[^ ]*#\d+|atnew:[A-Za-z]*#\d+|requires-preserved#\d+|each#\d+|frame#\d+|loop\d+/inv#\d+|panic#\d+|typeassert#\d+|nilderef#\d+|index#\d+|typednil#\d+|nilelem#\d+|nilmap#\d+|contract-mismatch)`)

// runConcretiser tries to reproduce a failed obligation on the real code: the replay test of the
// obligation's function is injected into the real package with `go test -overlay` and run; a
// REPLAY-FAIL line for the same clause means the violation is reproduced on a concrete input.
func runConcretiser(v *Verifier, prop string, ob *Obligation, rp *Replay) {
	test, ok := replayTests[ob.Fn]
	if !ok {
		rp.Notes = append(rp.Notes, "no replay harness registered for "+ob.Fn+"; the solver output is attached")
		return
	}
	pkgDir := "internal/wire"
	if strings.HasPrefix(ob.Fn, "main:") {
		pkgDir = "cmd/wire"
	}
	files, _ := filepath.Glob(filepath.Join(verifDir, "replay", "*_test.go"))
	repl := map[string]string{}
	for _, f := range files {
		data, err := os.ReadFile(f)
		if err != nil {
			continue
		}
		want := "package wire"
		if pkgDir == "cmd/wire" {
			want = "package main"
		}
		if !strings.Contains(string(data), want+"\n") {
			continue
		}
		repl[filepath.Join(v.RepoDir, pkgDir, "zz_replay_"+filepath.Base(f))] = f
	}
	tmp, err := os.MkdirTemp("", "govc-replay-")
	if err != nil {
		return
	}
	defer os.RemoveAll(tmp)
	ov, _ := json.Marshal(map[string]interface{}{"Replace": repl})
	ovPath := filepath.Join(tmp, "ov.json")
	os.WriteFile(ovPath, ov, 0644)
	cmd := exec.Command("go", "test", "-overlay", ovPath, "-vet=off", "-count=1", "-timeout", "120s", "-run", "^("+test+")$", "./"+pkgDir)
	cmd.Dir = v.RepoDir
	clauseID := ""
	if m := clauseRe.FindStringSubmatch(ob.Name); m != nil {
		clauseID = m[1]
	}
	cmd.Env = append(os.Environ(), "GOFLAGS=-mod=mod", "GOPROXY=off", "GOSUMDB=off", "GOTOOLCHAIN=local", "GOVC_CLAUSE="+clauseID, "GOVC_OBLIGATION="+ob.Name, "GOVC_CLAUSE_TEXT="+ob.Text, "GOVC_FN="+ob.Fn)
	out, _ := cmd.CombinedOutput()
	text := string(out)
	rp.ReplayTest = fmt.Sprintf("cd %s && go test -overlay <%s> -vet=off -run '^%s$' ./%s", v.RepoDir, strings.Join(files, ","), test, pkgDir)
	clause := ""
	if m := clauseRe.FindStringSubmatch(ob.Name); m != nil {
		clause = m[1]
	}
	var hits []string
	for _, ln := range strings.Split(text, "\n") {
		if !strings.HasPrefix(ln, "REPLAY-FAIL") {
			continue
		}
		if clause != "" && strings.Contains(ln, "clause="+clause+" ") && strings.Contains(ln, "fn="+ob.Fn+" ") {
			hits = append(hits, ln)
		}
	}
	if len(hits) > 0 {
		rp.Reproduced = true
		if len(hits) > 5 {
			hits = hits[:5]
		}
		rp.ReplayLog = strings.Join(hits, "\n")
		return
	}
	rp.ReplayLog = truncate(text, 4000)
	rp.Notes = append(rp.Notes, "the replay harness found no concrete input violating clause "+clause+" within its input space")
}
