package main

import "fmt"

// splitting of contract clauses into independently checked conjuncts

var renameSeq int

// substExpr substitutes identifiers by expressions (capture-avoiding because bound
// variables of define bodies are renamed apart on expansion).
func substExpr(x Expr, m map[string]Expr) Expr {
	switch n := x.(type) {
	case *EIdent:
		if r, ok := m[n.Name]; ok {
			return r
		}
		return n
	case *EUnary:
		return &EUnary{n.Op, substExpr(n.X, m)}
	case *EBinary:
		return &EBinary{n.Op, substExpr(n.X, m), substExpr(n.Y, m)}
	case *ESel:
		return &ESel{substExpr(n.X, m), n.Name}
	case *EIndex:
		return &EIndex{substExpr(n.X, m), substExpr(n.I, m)}
	case *EUpdate:
		return &EUpdate{substExpr(n.X, m), substExpr(n.I, m), substExpr(n.V, m)}
	case *ECall:
		var args []Expr
		for _, a := range n.Args {
			args = append(args, substExpr(a, m))
		}
		fun := n.Fun
		if _, isID := fun.(*EIdent); !isID {
			fun = substExpr(fun, m)
		}
		return &ECall{fun, args}
	case *EQuant:
		renameSeq++
		m2 := map[string]Expr{}
		for k, v := range m {
			m2[k] = v
		}
		var vars []QVar
		for _, qv := range n.Vars {
			nn := fmt.Sprintf("%s_%d", qv.Name, renameSeq)
			vars = append(vars, QVar{Name: nn, Type: qv.Type})
			m2[qv.Name] = &EIdent{nn}
		}
		return &EQuant{n.Forall, vars, substExpr(n.Body, m2)}
	case *EOld:
		return &EOld{substExpr(n.X, m)}
	case *EIs:
		return &EIs{substExpr(n.X, m), n.Type}
	case *ECast:
		return &ECast{substExpr(n.X, m), n.Type}
	case *EIte:
		return &EIte{substExpr(n.C, m), substExpr(n.A, m), substExpr(n.B, m)}
	}
	return x
}

// splitConj returns conjuncts whose conjunction is equivalent to x.
func (db *SpecDB) splitConj(x Expr, depth int) []Expr {
	return db.splitConj2(x, depth, false)
}

func (db *SpecDB) splitConj2(x Expr, depth int, underQ bool) []Expr {
	if depth > 6 {
		return []Expr{x}
	}
	switch n := x.(type) {
	case *EBinary:
		switch n.Op {
		case "&&":
			return append(db.splitConj2(n.X, depth, underQ), db.splitConj2(n.Y, depth, underQ)...)
		case "==>":
			var out []Expr
			for _, r := range db.splitConj2(n.Y, depth, underQ) {
				out = append(out, &EBinary{"==>", n.X, r})
			}
			return out
		}
	case *EQuant:
		if n.Forall {
			var out []Expr
			for _, r := range db.splitConj2(n.Body, depth, true) {
				out = append(out, &EQuant{true, n.Vars, r})
			}
			return out
		}
	case *ECall:
		if id, ok := n.Fun.(*EIdent); ok {
			if d, ok := db.Defines[id.Name]; ok && len(d.Params) == len(n.Args) && !underQ && depth < 1 {
				m := map[string]Expr{}
				for i, p := range d.Params {
					m[p.Name] = n.Args[i]
				}
				return db.splitConj2(substExpr(d.Body, m), depth+1, underQ)
			}
		}
	}
	return []Expr{x}
}

// mentionsAny reports whether x mentions (free) one of the identifiers in names.
func mentionsAny(x Expr, names map[string]bool) bool {
	switch n := x.(type) {
	case *EIdent:
		return names[n.Name]
	case *EUnary:
		return mentionsAny(n.X, names)
	case *EBinary:
		return mentionsAny(n.X, names) || mentionsAny(n.Y, names)
	case *ESel:
		return mentionsAny(n.X, names)
	case *EIndex:
		return mentionsAny(n.X, names) || mentionsAny(n.I, names)
	case *EUpdate:
		return mentionsAny(n.X, names) || mentionsAny(n.I, names) || mentionsAny(n.V, names)
	case *ECall:
		for _, a := range n.Args {
			if mentionsAny(a, names) {
				return true
			}
		}
		if _, isID := n.Fun.(*EIdent); !isID {
			return mentionsAny(n.Fun, names)
		}
		return false
	case *EQuant:
		inner := map[string]bool{}
		for k, v := range names {
			inner[k] = v
		}
		for _, qv := range n.Vars {
			delete(inner, qv.Name)
		}
		return mentionsAny(n.Body, inner)
	case *EOld:
		return mentionsAny(n.X, names)
	case *EIs:
		return mentionsAny(n.X, names)
	case *ECast:
		return mentionsAny(n.X, names)
	case *EIte:
		return mentionsAny(n.C, names) || mentionsAny(n.A, names) || mentionsAny(n.B, names)
	}
	return false
}
