package main

import (
	"fmt"
	"go/types"
	"sort"
	"strings"
)

// Schema expansion.
//
// `schema astcopy <cursor-param> <map-var>` on the post-order callback that copyAST hands to
// astutil.Apply generates, from the struct definitions of package go/ast of the toolchain in use (not
// from a hand-written list), for every node type *ast.T that implements ast.Node:
//
//   - trusted schema facts (preconditions that mention the cursor; the engine assumes such callback
//     preconditions and reports them as assumptions): astutil.Apply invokes the post callback on a node
//     after it has invoked it on every child, so every non-nil child (every field of node type, every
//     element of a field that is a list of nodes) is already a key of the map;
//   - [C15] postconditions: the map has an entry for the node, of the same dynamic type, freshly
//     allocated (identifiers: the identical node), in which every scalar field equals the original's and
//     every child field / child list element is the map image of the original's child.
//
// A node type without a case in the callback, or a field a case forgets, fails a named obligation.
func (v *Verifier) expandSchemas() error {
	var keys []string
	for k := range v.DB.Contracts {
		keys = append(keys, k)
	}
	sort.Strings(keys)
	for _, k := range keys {
		con := v.DB.Contracts[k]
		if len(con.Schema) == 0 {
			continue
		}
		switch con.Schema[0] {
		case "astcopy":
			if len(con.Schema) != 3 {
				return fmt.Errorf("%s: schema astcopy <cursor> <map>", con.Where)
			}
			if err := v.expandAstCopy(con, con.Schema[1], con.Schema[2]); err != nil {
				return err
			}
		default:
			return fmt.Errorf("%s: unknown schema %q", con.Where, con.Schema[0])
		}
	}
	return nil
}

type astField struct {
	Name string
	Kind string // scalar ptrnode ifacenode ptrlist ifacelist other
}

func (v *Verifier) astNodeTypes() (map[string][]astField, []string, error) {
	ap := v.TypesByPkgName["ast"]
	if ap == nil || ap.Path() != "go/ast" {
		return nil, nil, fmt.Errorf("schema astcopy: package go/ast not loaded")
	}
	nodeI := ap.Scope().Lookup("Node").Type().Underlying().(*types.Interface)
	isNodePtr := func(t types.Type) bool {
		p, ok := t.(*types.Pointer)
		if !ok {
			return false
		}
		if _, ok := p.Elem().Underlying().(*types.Struct); !ok {
			return false
		}
		return types.Implements(t, nodeI)
	}
	isNodeIface := func(t types.Type) bool {
		n, ok := t.(*types.Named)
		if !ok {
			return false
		}
		it, ok := n.Underlying().(*types.Interface)
		if !ok || n.Obj().Pkg() != ap {
			return false
		}
		return types.Implements(it, nodeI) || types.Identical(it, nodeI)
	}
	out := map[string][]astField{}
	var names []string
	for _, n := range ap.Scope().Names() {
		tn, ok := ap.Scope().Lookup(n).(*types.TypeName)
		if !ok {
			continue
		}
		st, ok := tn.Type().Underlying().(*types.Struct)
		if !ok || !types.Implements(types.NewPointer(tn.Type()), nodeI) {
			continue
		}
		var fs []astField
		for i := 0; i < st.NumFields(); i++ {
			f := st.Field(i)
			k := "scalar"
			switch t := f.Type().(type) {
			case *types.Pointer:
				if isNodePtr(t) {
					k = "ptrnode"
				} else {
					k = "other"
				}
			case *types.Named:
				if isNodeIface(t) {
					k = "ifacenode"
				} else if _, isMap := t.Underlying().(*types.Map); isMap {
					k = "other"
				}
			case *types.Slice:
				if isNodePtr(t.Elem()) {
					k = "ptrlist"
				} else if isNodeIface(t.Elem()) {
					k = "ifacelist"
				} else {
					k = "other"
				}
			case *types.Map:
				k = "other"
			}
			fs = append(fs, astField{f.Name(), k})
		}
		out[n] = fs
		names = append(names, n)
	}
	sort.Strings(names)
	return out, names, nil
}

func (v *Verifier) expandAstCopy(con *Contract, cur, m string) error {
	fields, names, err := v.astNodeTypes()
	if err != nil {
		return err
	}
	group := ""
	add := func(kind string, tags []string, format string, a ...interface{}) error {
		txt := fmt.Sprintf(format, a...)
		e, err := parseSpecExpr(txt)
		if err != nil {
			return fmt.Errorf("schema astcopy: generated clause %q: %v", txt, err)
		}
		c := &Clause{Kind: kind, Tags: tags, Text: txt, E: e, Where: con.Where + " (schema astcopy)", Group: group}
		for _, t := range tags {
			con.Props[t] = true
		}
		if kind == "requires" {
			c.Ord = len(con.Requires) + 1
			con.Requires = append(con.Requires, c)
		} else {
			c.Ord = len(con.Ensures) + 1
			con.Ensures = append(con.Ensures, c)
		}
		return nil
	}
	node := cur + ".Node()"
	c15 := []string{"C15"}
	// a tree: every node is visited once, so the node being visited has no entry yet (trusted)
	if err := add("requires", nil, "%s != nil ==> !has(%s, %s)", node, m, node); err != nil {
		return err
	}
	for _, n := range names {
		if n == "File" || n == "Package" {
			// not below a declaration or an expression: excluded by the (checked) precondition of copyAST
			// plus the tree shape of go/ast (trusted)
			if err := add("requires", nil, "!(%s is *ast.%s)", node, n); err != nil {
				return err
			}
			continue
		}
		group = "astcopy:" + n
		G := fmt.Sprintf("(%s is *ast.%s)", node, n)
		o := fmt.Sprintf("%s.(*ast.%s)", node, n)
		r := fmt.Sprintf("%s[%s].(*ast.%s)", m, node, n)
		if err := add("ensures", c15, "%s ==> has(%s, %s) && (%s[%s] is *ast.%s) && ptr(%s[%s]) != 0", G, m, node, m, node, n, m, node); err != nil {
			return err
		}
		if n == "Ident" {
			if err := add("ensures", c15, "%s ==> %s[%s] == %s", G, m, node, node); err != nil {
				return err
			}
			continue
		}
		if err := add("ensures", c15, "%s ==> fresh(ptr(%s[%s]))", G, m, node); err != nil {
			return err
		}
		for _, f := range fields[n] {
			of, rf := o+"."+f.Name, r+"."+f.Name
			var errs []error
			switch f.Kind {
			case "scalar":
				errs = append(errs, add("ensures", c15, "%s ==> %s == %s", G, rf, of))
			case "ptrnode":
				errs = append(errs, add("requires", nil, "%s && %s != nil ==> has(%s, box(%s))", G, of, m, of))
				errs = append(errs, add("ensures", c15, "%s && %s == nil ==> %s == nil", G, of, rf))
				errs = append(errs, add("ensures", c15, "%s && %s != nil ==> box(%s) == old(%s[box(%s)])", G, of, rf, m, of))
			case "ifacenode":
				errs = append(errs, add("requires", nil, "%s && %s != nil ==> has(%s, %s)", G, of, m, of))
				errs = append(errs, add("ensures", c15, "%s && %s == nil ==> %s == nil", G, of, rf))
				errs = append(errs, add("ensures", c15, "%s && %s != nil ==> %s == old(%s[%s])", G, of, rf, m, of))
			case "ptrlist":
				errs = append(errs, add("requires", nil, "%s ==> forall i :: 0 <= i && i < len(%s) ==> %s[i] != nil && has(%s, box(%s[i]))", G, of, of, m, of))
				errs = append(errs, add("ensures", c15, "%s ==> len(%s) == len(%s) && ((%s == nil) == (%s == nil))", G, rf, of, rf, of))
				errs = append(errs, add("ensures", c15, "%s ==> forall i :: 0 <= i && i < len(%s) ==> box(%s[i]) == old(%s[box(%s[i])])", G, of, rf, m, of))
			case "ifacelist":
				errs = append(errs, add("requires", nil, "%s ==> forall i :: 0 <= i && i < len(%s) ==> %s[i] != nil && has(%s, %s[i])", G, of, of, m, of))
				errs = append(errs, add("ensures", c15, "%s ==> len(%s) == len(%s) && ((%s == nil) == (%s == nil))", G, rf, of, rf, of))
				errs = append(errs, add("ensures", c15, "%s ==> forall i :: 0 <= i && i < len(%s) ==> %s[i] == old(%s[%s[i]])", G, of, rf, m, of))
			default:
				// fields that are neither nodes nor plain values (*ast.Object, *ast.Scope, maps) occur in Ident, File
				// and Package only
				return fmt.Errorf("schema astcopy: field ast.%s.%s has no copy rule", n, f.Name)
			}
			for _, e := range errs {
				if e != nil {
					return e
				}
			}
		}
	}
	_ = strings.Join
	return nil
}
