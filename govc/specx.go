package main

// Translation of contract expressions to SMT terms.

import (
	"fmt"
	"go/constant"
	"go/types"
	"os"
	"strings"

	"golang.org/x/tools/go/ssa"
)

type SEnv struct {
	c       *FnCtx
	st, old *State
	vars    map[string]Val
	resolve func(name string) (Val, bool)
	results []Val
	facts   []string
	bound   map[string]bool
	callee  *ssa.Function
	applies *[]applyRec // applications of function-valued parameters met while translating
	pol     int         // +1: the formula is assumed; -1: it is to be proved; 0: unknown / both
	qfacts  *[]string   // typing facts about terms that mention variables of the innermost quantifier
}

// trGoal / trAssume translate a clause that will be asserted / assumed. The polarity decides how
// the (always true) typing facts of heap reads under binders are injected.
func (e *SEnv) trGoal(x Expr) string   { e.pol = -1; return e.trBool(x) }
func (e *SEnv) trAssume(x Expr) string { e.pol = 1; return e.trBool(x) }

// heapFact records a typing fact (closedness of the heap: every reference read from the heap is
// allocated, lengths are non-negative ...) for a value read by a contract expression.
func (e *SEnv) heapFact(v Val) {
	if v.GT == nil || v.IsTuple() {
		return
	}
	f := e.c.typeFacts(v, e.st)
	if f == "true" {
		return
	}
	if mentionsBound(v.T) {
		if e.qfacts != nil {
			*e.qfacts = append(*e.qfacts, f)
		}
		return
	}
	e.facts = append(e.facts, f)
}

type applyRec struct {
	Param string // name of the function-valued parameter
	Term  string // the application term
	Args  []Val
	S     Sort
}

// applyTerm: application of a function value (assumed deterministic and free of effects on the
// modelled heap for the duration of the enclosing call): an uninterpreted function of the
// function value and the arguments.
func (c *FnCtx) applyTerm(fn Val, args []Val, res types.Type) Val {
	rs := c.sortOf(res)
	name := "apply"
	sorts := []Sort{SInt}
	ts := []string{fn.T}
	for _, a := range args {
		name += "_" + mangle(string(a.S))
		sorts = append(sorts, a.S)
		ts = append(ts, a.T)
	}
	name += "__" + mangle(string(rs))
	c.ufun(name, sorts, rs)
	return Val{T: sx(name, ts...), S: rs, GT: res}
}

func (e *SEnv) child() *SEnv {
	n := *e
	n.vars = map[string]Val{}
	for k, v := range e.vars {
		n.vars[k] = v
	}
	n.bound = map[string]bool{}
	for k, v := range e.bound {
		n.bound[k] = v
	}
	return &n
}

func (e *SEnv) fail(format string, args ...interface{}) {
	panic("spec: " + fmt.Sprintf(format, args...))
}

func (e *SEnv) trBool(x Expr) string {
	v := e.tr(x)
	if v.S != SBool {
		e.fail("boolean expected, got sort %s for %v", v.S, describe(x))
	}
	return v.T
}

func describe(x Expr) string { return fmt.Sprintf("%#v", x) }

// specEnvFor builds the environment for clauses of the function being verified.
func (c *FnCtx) specEnvFor(st, old *State, results []Val) *SEnv {
	e := &SEnv{c: c, st: st, old: old, vars: map[string]Val{}, bound: map[string]bool{}, results: results}
	e.resolve = func(name string) (Val, bool) { return c.resolveName(name, nil, nil, st) }
	// named results
	if results != nil {
		sig := c.fn.Signature
		for i := 0; i < sig.Results().Len(); i++ {
			if n := sig.Results().At(i).Name(); n != "" && n != "_" && i < len(results) {
				e.vars[n] = results[i]
			}
		}
	}
	return e
}

// resolveName finds the value a source-level name denotes at the current point.
// header/sub: when evaluating a loop invariant, phis of the header are substituted.
func (c *FnCtx) resolveName(name string, loop *Loop, sub map[ssa.Value]Val, st *State) (Val, bool) {
	// address-taken / captured variables live in a cell: their name always denotes the current
	// content of the cell (never an earlier load of it)
	if p, isParam := c.names[name]; isParam && st == c.entry {
		// at function entry a parameter denotes the argument (its address-taken copy is not yet initialised)
		return c.val(p), true
	}
	if len(c.nameAll["&"+name]) == 1 {
		v := c.nameAll["&"+name][0]
		if b, ok := c.env[v]; ok && c.definedHere(v) {
			l := c.ptrLoc(b.V.T, derefType(v.Type()), true)
			return c.loadLoc(st, l), true
		}
	}
	if !strings.HasSuffix(c.fn.Name(), "$bound") {
		for _, fv := range c.fn.FreeVars {
			if fv.Name() == name {
				if pt := derefType(fv.Type()); pt != nil {
					return c.loadLoc(st, c.ptrLoc(c.env[fv].V.T, pt, false)), true
				}
			}
		}
	}
	cands := c.nameAll[name]
	var pick ssa.Value
	if strings.HasPrefix(name, "done") && len(name) > 4 {
		// done<k>: completed iterations of enclosing range loop number k
		for _, ol := range c.loopList {
			if fmt.Sprintf("done%d", ol.Ord) == name {
				for _, in := range ol.Header.Instrs {
					if phi, ok := in.(*ssa.Phi); ok && phi.Comment == "rangeindex" {
						var v Val
						if ol == loop {
							v = c.evalAt(phi, loop, sub)
						} else {
							v = c.val(phi)
						}
						return Val{T: sx("+", v.T, "1"), S: SInt, GT: types.Typ[types.Int]}, true
					}
				}
			}
		}
	}
	if loop != nil && name == "done" {
		// number of completed iterations of a range-over-slice loop (hidden index + 1)
		for _, in := range loop.Header.Instrs {
			if phi, ok := in.(*ssa.Phi); ok && phi.Comment == "rangeindex" {
				v := c.evalAt(phi, loop, sub)
				return Val{T: sx("+", v.T, "1"), S: SInt, GT: types.Typ[types.Int]}, true
			}
		}
	}
	if loop != nil {
		// 1. phi of this header
		for _, v := range cands {
			if phi, ok := v.(*ssa.Phi); ok && phi.Block() == loop.Header {
				pick = v
			}
		}
		// 2. value defined in header block
		if pick == nil {
			for _, v := range cands {
				if in, ok := v.(ssa.Instruction); ok && in.Block() == loop.Header {
					pick = v
				}
			}
		}
		// 3. closest dominating definition
		if pick == nil {
			for _, v := range cands {
				if in, ok := v.(ssa.Instruction); ok {
					if in.Block() != loop.Header && in.Block().Dominates(loop.Header) {
						if pick == nil || pick.(ssa.Instruction).Block().Dominates(in.Block()) {
							pick = v
						}
					}
				}
			}
		}
	}
	if pick == nil {
		if p, ok := c.names[name]; ok {
			pick = p
		}
	}
	if pick == nil && c.curBlock != nil {
		for _, v := range cands {
			if in, ok := v.(ssa.Instruction); ok {
				if _, defined := c.env[v]; !defined {
					continue
				}
				if in.Block() == c.curBlock || in.Block().Dominates(c.curBlock) {
					if pick == nil || pick.(ssa.Instruction).Block().Dominates(in.Block()) {
						pick = v
					}
				}
			}
		}
	}
	if pick != nil {
		return c.evalAt(pick, loop, sub), true
	}
	// captured / address-taken local: load the cell
	for _, v := range c.nameAll["&"+name] {
		if b, ok := c.env[v]; ok {
			l := c.ptrLoc(b.V.T, derefType(v.Type()), true)
			return c.loadLoc(st, l), true
		}
	}
	// free variable that is a pointer to a captured variable with that name
	for _, fv := range c.fn.FreeVars {
		if fv.Name() == name {
			b := c.env[fv]
			if pt := derefType(fv.Type()); pt != nil {
				l := c.ptrLoc(b.V.T, pt, false)
				return c.loadLoc(st, l), true
			}
		}
	}
	return Val{}, false
}

// evalAt evaluates SSA value v with header phis substituted.
func (c *FnCtx) evalAt(v ssa.Value, loop *Loop, sub map[ssa.Value]Val) Val {
	if sub != nil {
		if s, ok := sub[v]; ok {
			return s
		}
		if in, ok := v.(ssa.Instruction); ok && loop != nil && in.Block() == loop.Header {
			switch x := v.(type) {
			case *ssa.BinOp:
				a, b := c.evalAt(x.X, loop, sub), c.evalAt(x.Y, loop, sub)
				op := x.Op.String()
				switch op {
				case "+", "-", "*", "<", "<=", ">", ">=":
					s := SInt
					if op[0] == '<' || op[0] == '>' {
						s = SBool
					}
					return Val{T: sx(op, a.T, b.T), S: s, GT: x.Type()}
				case "==":
					return Val{T: sEq(a.T, b.T), S: SBool, GT: x.Type()}
				case "!=":
					return Val{T: sNot(sEq(a.T, b.T)), S: SBool, GT: x.Type()}
				}
			case *ssa.Call:
				if b, ok := x.Call.Value.(*ssa.Builtin); ok && b.Name() == "len" {
					a := c.evalAt(x.Call.Args[0], loop, sub)
					if a.S == SSlice {
						return Val{T: sx("slen", a.T), S: SInt, GT: x.Type()}
					}
				}
			}
		}
	}
	return c.val(v)
}

// trInvariant translates a loop invariant. sub == nil: at the header (phi constants).
func (c *FnCtx) trInvariant(l *Loop, inv *Clause, st *State, sub map[ssa.Value]Val, items *[]Item) string {
	if inv.AutoState != nil {
		return inv.AutoState(st)
	}
	if inv.Auto != nil {
		return inv.Auto(func(v interface{}) string { return c.evalAt(v.(ssa.Value), l, sub).T })
	}
	e := &SEnv{c: c, st: st, old: c.entry, vars: map[string]Val{}, bound: map[string]bool{}}
	e.resolve = func(name string) (Val, bool) { return c.resolveName(name, l, sub, st) }
	var f string
	if sub != nil {
		f = e.trGoal(inv.E)
	} else {
		f = e.trAssume(inv.E)
	}
	if items != nil {
		for _, ft := range e.facts {
			*items = append(*items, Item{Kind: "assume", F: ft})
		}
	} else {
		for _, ft := range e.facts {
			c.assume(c.curItems, ft)
		}
	}
	return f
}

func (c *FnCtx) flushFacts(e *SEnv) {
	// facts about pure applications must precede the assertion that uses them; callers insert
	// them before appending the assert, so here they are prepended by re-ordering.
	if len(e.facts) == 0 {
		return
	}
	for _, ft := range e.facts {
		c.assume(c.curItems, ft)
	}
	e.facts = nil
}

func nilVal() Val { return Val{T: "nil", S: "nil"} }

func (e *SEnv) coerceNil(a, b Val) (Val, Val) {
	zero := func(s Sort) string {
		switch s {
		case SIface:
			return "(mk_iface 0 0)"
		case SSlice:
			return "(mk_slice 0 0 0)"
		}
		return "0"
	}
	if a.S == "nil" && b.S != "nil" {
		a = Val{T: zero(b.S), S: b.S, GT: b.GT}
	}
	if b.S == "nil" && a.S != "nil" {
		b = Val{T: zero(a.S), S: a.S, GT: a.GT}
	}
	return a, b
}

func (e *SEnv) tr(x Expr) Val {
	c := e.c
	switch n := x.(type) {
	case *EInt:
		return Val{T: sInt(n.V), S: SInt, GT: types.Typ[types.Int]}
	case *EBool:
		if n.V {
			return Val{T: "true", S: SBool}
		}
		return Val{T: "false", S: SBool}
	case *EStr:
		return Val{T: c.U.strLit(n.V), S: SInt, GT: types.Typ[types.String]}
	case *ENil:
		return nilVal()
	case *EIdent:
		return e.ident(n.Name)
	case *EOld:
		o := *e
		o.st = e.old
		o.facts = nil
		v := o.tr(n.X)
		e.facts = append(e.facts, o.facts...)
		return v
	case *EUnary:
		switch n.Op {
		case "!":
			save := e.pol
			e.pol = -save
			r := sNot(e.trBool(n.X))
			e.pol = save
			return Val{T: r, S: SBool}
		case "-":
			v := e.tr(n.X)
			return Val{T: sx("-", v.T), S: SInt, GT: v.GT}
		case "&":
			return e.addrOf(n.X)
		}
	case *EBinary:
		return e.binary(n)
	case *EIte:
		cnd := e.trBool(n.C)
		a, b := e.tr(n.A), e.tr(n.B)
		a, b = e.coerceNil(a, b)
		return Val{T: sIte(cnd, a.T, b.T), S: a.S, GT: a.GT}
	case *ESel:
		return e.sel(n)
	case *EIndex:
		return e.index(n)
	case *EUpdate:
		a, i, v := e.tr(n.X), e.tr(n.I), e.tr(n.V)
		return Val{T: sStore(a.T, i.T, v.T), S: a.S, GT: a.GT}
	case *ECall:
		return e.call(n)
	case *EQuant:
		ch := e.child()
		ch.facts = nil
		var decls []string
		var guards []string
		for _, qv := range n.Vars {
			s := SInt
			var gt types.Type = types.Typ[types.Int]
			if qv.Type != "" && qv.Type != "int" {
				t, err := c.V.lookupType(qv.Type, c.home)
				if err != nil {
					e.fail("%v", err)
				}
				s = c.sortOf(t)
				gt = t
			}
			name := "q_" + qv.Name
			decls = append(decls, fmt.Sprintf("(%s %s)", name, s))
			ch.vars[qv.Name] = Val{T: name, S: s, GT: gt}
			ch.bound[qv.Name] = true
		}
		_ = guards
		var qf []string
		ch.qfacts = &qf
		body := ch.trBool(n.Body)
		for _, ft := range ch.facts {
			if !mentionsBound(ft) {
				e.facts = append(e.facts, ft)
			}
		}
		if len(qf) > 0 {
			seen := map[string]bool{}
			var uq []string
			for _, f := range qf {
				if !seen[f] {
					seen[f] = true
					uq = append(uq, f)
				}
			}
			switch {
			case n.Forall && e.pol > 0:
				body = sAnd(append(uq, body)...)
			case n.Forall && e.pol < 0:
				body = sImp(sAnd(uq...), body)
			case !n.Forall && e.pol > 0:
				body = sAnd(append(uq, body)...)
			}
		}
		q := "exists"
		if n.Forall {
			q = "forall"
		}
		return Val{T: fmt.Sprintf("(%s (%s) %s)", q, strings.Join(decls, " "), body), S: SBool}
	case *EIs:
		v := e.tr(n.X)
		if v.S != SIface {
			e.fail("'is' needs an interface value")
		}
		t, err := c.V.lookupType(n.Type, c.home)
		if err != nil {
			e.fail("%v", err)
		}
		return Val{T: c.tagTest(v.T, t), S: SBool}
	case *ECast:
		v := e.tr(n.X)
		t, err := c.V.lookupType(n.Type, c.home)
		if err != nil {
			e.fail("%v", err)
		}
		if v.S != SIface {
			e.fail("cast needs an interface value")
		}
		if _, isIface := t.Underlying().(*types.Interface); isIface {
			return Val{T: v.T, S: SIface, GT: t}
		}
		r := Val{T: c.unpayload(sx("ipay", v.T), t), S: c.sortOf(t), GT: t}
		return r
	}
	e.fail("cannot translate %s", describe(x))
	return Val{}
}

func (e *SEnv) ident(name string) Val {
	c := e.c
	if v, ok := e.vars[name]; ok {
		return v
	}
	if name == "result" {
		if len(e.results) == 1 {
			return e.results[0]
		}
		return Val{Tup: e.results}
	}
	if name == "alloc" {
		return Val{T: e.st.alloc, S: SInt}
	}
	if e.resolve != nil {
		if v, ok := e.resolve(name); ok {
			return v
		}
	}
	// ghost array
	if _, s, ok := c.ghostArr(name); ok {
		return Val{T: c.arrIn(e.st, name), S: s}
	}
	// package-level object of the home package
	if c.home != nil {
		if obj := c.home.Scope().Lookup(name); obj != nil {
			return e.pkgObject(obj)
		}
	}
	// a heap array of the model by its name (C_<type>: cells of that type, F_<struct>_<field>, A_<elem>):
	// used by frame clauses of callbacks ("every cell but mine is unchanged")
	if (strings.HasPrefix(name, "C_") || strings.HasPrefix(name, "F_") || strings.HasPrefix(name, "A_")) && c.ensureArr(name) {
		return Val{T: c.arrIn(e.st, name), S: c.arrSorts[name]}
	}
	if os.Getenv("GOVC_DEBUG") != "" {
		fmt.Fprintf(os.Stderr, "DEBUG unknown ident %q: candidates=%d curBlock=%v\n", name, len(c.nameAll[name]), c.curBlock)
		for _, v := range c.nameAll[name] {
			_, def := c.env[v]
			fmt.Fprintf(os.Stderr, "   cand %s defined=%v\n", v.Name(), def)
		}
	}
	e.fail("unknown identifier %q in contract of %s", name, c.fnKey())
	return Val{}
}

func (e *SEnv) pkgObject(obj types.Object) Val {
	c := e.c
	switch o := obj.(type) {
	case *types.Const:
		switch o.Val().Kind() {
		case constant.Int:
			n, _ := constant.Int64Val(o.Val())
			return Val{T: sInt(n), S: SInt, GT: o.Type()}
		case constant.String:
			return Val{T: c.U.strLit(constant.StringVal(o.Val())), S: SInt, GT: o.Type()}
		case constant.Bool:
			if constant.BoolVal(o.Val()) {
				return Val{T: "true", S: SBool}
			}
			return Val{T: "false", S: SBool}
		}
	case *types.Var:
		n := "|gv:" + o.Pkg().Name() + "." + o.Name() + "|"
		s := c.sortOf(o.Type())
		c.D.constant(n, s)
		return Val{T: n, S: s, GT: o.Type()}
	}
	e.fail("unsupported package-level object %s", obj)
	return Val{}
}

func (e *SEnv) addrOf(x Expr) Val {
	c := e.c
	s, ok := x.(*ESel)
	if !ok {
		e.fail("& applies to field selections only")
	}
	base := e.tr(s.X)
	pt := derefType(base.GT)
	if pt == nil {
		e.fail("& of field of non-pointer")
	}
	st := pt.Underlying().(*types.Struct)
	for i := 0; i < st.NumFields(); i++ {
		if st.Field(i).Name() == s.Name {
			l := c.locField(c.ptrLoc(base.T, pt, false), i)
			var dummy []Item
			return c.locValue(e.st, l, &dummy)
		}
	}
	e.fail("no field %s", s.Name)
	return Val{}
}

func (e *SEnv) binary(n *EBinary) Val {
	switch n.Op {
	case "&&":
		return Val{T: sAnd(e.trBool(n.X), e.trBool(n.Y)), S: SBool}
	case "||":
		return Val{T: sOr(e.trBool(n.X), e.trBool(n.Y)), S: SBool}
	case "==>":
		save := e.pol
		e.pol = -save
		a := e.trBool(n.X)
		e.pol = save
		return Val{T: sImp(a, e.trBool(n.Y)), S: SBool}
	case "<==>":
		save := e.pol
		e.pol = 0
		a, b := e.trBool(n.X), e.trBool(n.Y)
		e.pol = save
		return Val{T: sEq(a, b), S: SBool}
	}
	a, b := e.tr(n.X), e.tr(n.Y)
	a, b = e.coerceNil(a, b)
	switch n.Op {
	case "==", "!=":
		if a.S != b.S {
			e.fail("comparison of different sorts %s and %s in %s", a.S, b.S, describe(n))
		}
		var eq string
		if a.S == SSlice && (isNilExpr(n.X) || isNilExpr(n.Y)) {
			if isNilExpr(n.X) {
				eq = sEq(sx("sref", b.T), "0")
			} else {
				eq = sEq(sx("sref", a.T), "0")
			}
		} else {
			eq = sEq(a.T, b.T)
		}
		if n.Op == "!=" {
			eq = sNot(eq)
		}
		return Val{T: eq, S: SBool}
	case "<", "<=", ">", ">=":
		return Val{T: sx(n.Op, a.T, b.T), S: SBool}
	case "+", "-", "*":
		if n.Op == "+" && a.GT != nil && isString(a.GT) {
			f := e.c.ufun("str_concat", []Sort{SInt, SInt}, SInt)
			return Val{T: sx(f, a.T, b.T), S: SInt, GT: a.GT}
		}
		return Val{T: sx(n.Op, a.T, b.T), S: SInt, GT: a.GT}
	case "/":
		return Val{T: sx("div", a.T, b.T), S: SInt, GT: a.GT}
	case "%":
		return Val{T: sx("mod", a.T, b.T), S: SInt, GT: a.GT}
	}
	e.fail("operator %s", n.Op)
	return Val{}
}

func isNilExpr(x Expr) bool { _, ok := x.(*ENil); return ok }

func (e *SEnv) sel(n *ESel) Val {
	c := e.c
	// package-qualified object
	if id, ok := n.X.(*EIdent); ok {
		if _, isVar := e.vars[id.Name]; !isVar {
			if _, found := e.tryResolve(id.Name); !found {
				if p := c.V.TypesByPkgName[id.Name]; p != nil {
					if obj := p.Scope().Lookup(n.Name); obj != nil {
						return e.pkgObject(obj)
					}
				}
			}
		}
	}
	base := e.tr(n.X)
	if base.IsTuple() {
		var k int
		fmt.Sscanf(n.Name, "%d", &k)
		if k >= len(base.Tup) {
			e.fail("tuple index %d out of range", k)
		}
		return base.Tup[k]
	}
	if base.GT == nil {
		e.fail("selector .%s on value of unknown Go type", n.Name)
	}
	t := base.GT
	if pt := derefType(t); pt != nil {
		st, ok := pt.Underlying().(*types.Struct)
		if !ok {
			e.fail("selector .%s on pointer to non-struct %s", n.Name, tstr(t))
		}
		for i := 0; i < st.NumFields(); i++ {
			if st.Field(i).Name() == n.Name {
				arr := c.fieldArr(pt, i)
				ft := st.Field(i).Type()
				r := Val{T: sSel(c.arrIn(e.st, arr), base.T), S: c.sortOf(ft), GT: ft}
				e.heapFact(r)
				return r
			}
		}
		e.fail("type %s has no field %s", tstr(pt), n.Name)
	}
	if st, ok := t.Underlying().(*types.Struct); ok {
		si := c.structSort(t)
		for i := 0; i < st.NumFields(); i++ {
			if st.Field(i).Name() == n.Name {
				r := Val{T: sx(si.Fields[i].Acc, base.T), S: c.sortOf(st.Field(i).Type()), GT: st.Field(i).Type()}
				e.heapFact(r)
				return r
			}
		}
		e.fail("struct %s has no field %s", tstr(t), n.Name)
	}
	e.fail("selector .%s on %s", n.Name, tstr(t))
	return Val{}
}

func (e *SEnv) tryResolve(name string) (Val, bool) {
	if name == "result" || name == "alloc" {
		return Val{}, true
	}
	if e.resolve == nil {
		return Val{}, false
	}
	defer func() { recover() }()
	return e.resolve(name)
}

func (e *SEnv) index(n *EIndex) Val {
	c := e.c
	a, i := e.tr(n.X), e.tr(n.I)
	switch {
	case a.S == SSlice:
		var et types.Type
		if a.GT != nil {
			if st, ok := a.GT.Underlying().(*types.Slice); ok {
				et = st.Elem()
			}
		}
		if et == nil {
			e.fail("index on slice of unknown element type")
		}
		arr := c.backArr(et)
		r := Val{T: sSel(sSel(c.arrIn(e.st, arr), sx("sref", a.T)), c.ix(sx("soff", a.T), i.T)), S: c.sortOf(et), GT: et}
		e.heapFact(r)
		return r
	case a.GT != nil && isMap(a.GT):
		mt := a.GT.Underlying().(*types.Map)
		_, mv := c.mapArrs(a.GT)
		return Val{T: sSel(sSel(c.arrIn(e.st, mv), a.T), i.T), S: c.sortOf(mt.Elem()), GT: mt.Elem()}
	case strings.HasPrefix(string(a.S), "(Array"):
		// generic array sort: (Array I E)
		es := elemSortOf(a.S)
		return Val{T: sSel(a.T, i.T), S: es, GT: nil}
	}
	e.fail("cannot index value of sort %s", a.S)
	return Val{}
}

func isMap(t types.Type) bool { _, ok := t.Underlying().(*types.Map); return ok }

// elemSortOf parses "(Array I E)" and returns E.
func elemSortOf(s Sort) Sort {
	str := strings.TrimSpace(string(s))
	str = strings.TrimSuffix(strings.TrimPrefix(str, "(Array "), ")")
	// skip index sort
	depth := 0
	for i, ch := range str {
		switch ch {
		case '(':
			depth++
		case ')':
			depth--
		case ' ':
			if depth == 0 {
				return Sort(strings.TrimSpace(str[i+1:]))
			}
		}
	}
	return Sort(str)
}

func sortByName(n string) Sort {
	switch n {
	case "int", "ref", "str":
		return SInt
	case "bool":
		return SBool
	case "iface":
		return SIface
	case "slice":
		return SSlice
	case "event":
		return SEvent
	case "intset":
		return arrSort(SInt, SBool)
	}
	return Sort(n)
}

func (e *SEnv) call(n *ECall) Val {
	c := e.c
	if id, ok := n.Fun.(*EIdent); ok {
		name := id.Name
		switch name {
		case "len":
			a := e.tr(n.Args[0])
			switch {
			case a.S == SSlice:
				if !mentionsBound(a.T) {
					e.facts = append(e.facts, sx("<=", "0", sx("slen", a.T)))
				} else if e.qfacts != nil {
					*e.qfacts = append(*e.qfacts, sx("<=", "0", sx("slen", a.T)))
				}
				return Val{T: sx("slen", a.T), S: SInt, GT: types.Typ[types.Int]}
			case a.GT != nil && isString(a.GT):
				return Val{T: sx(c.ufun("strlen", []Sort{SInt}, SInt), a.T), S: SInt, GT: types.Typ[types.Int]}
			case a.GT != nil && isMap(a.GT):
				return Val{T: c.mapLen(e.st, a), S: SInt, GT: types.Typ[types.Int]}
			}
			e.fail("len of sort %s", a.S)
		case "addr":
			// address of an address-taken local variable
			id, ok := n.Args[0].(*EIdent)
			if !ok {
				e.fail("addr needs a variable name")
			}
			for _, v := range c.nameAll["&"+id.Name] {
				if b, ok := c.env[v]; ok && c.definedHere(v) {
					return Val{T: b.V.T, S: SInt, GT: v.Type()}
				}
			}
			// inside a closure: a captured variable is held by its cell; the free variable IS the address
			for _, fv := range c.fn.FreeVars {
				if fv.Name() == id.Name {
					if b, ok := c.env[fv]; ok {
						return Val{T: b.V.T, S: SInt, GT: fv.Type()}
					}
				}
			}
			panic("spec: unknown identifier \"" + id.Name + "\" (addr) in contract of " + c.fnKey())
		case "isempty":
			a := e.tr(n.Args[0])
			return Val{T: sEq(a.T, fmt.Sprintf("((as const %s) false)", a.S)), S: SBool}
		case "ptr":
			a := e.tr(n.Args[0])
			return Val{T: sx("ipay", a.T), S: SInt}
		case "tag":
			a := e.tr(n.Args[0])
			return Val{T: sx("itag", a.T), S: SInt}
		case "box":
			a := e.tr(n.Args[0])
			if a.GT == nil {
				e.fail("box of value with unknown Go type")
			}
			return Val{T: c.boxIface(a, a.GT), S: SIface}
		case "has":
			m, k := e.tr(n.Args[0]), e.tr(n.Args[1])
			md, _ := c.mapArrs(m.GT)
			return Val{T: sAnd(sNot(sEq(m.T, "0")), sSel(sSel(c.arrIn(e.st, md), m.T), k.T)), S: SBool}
		case "fresh":
			a := e.tr(n.Args[0])
			if a.S == SSlice {
				a = Val{T: sx("sref", a.T), S: SInt}
			}
			return Val{T: sAnd(sx("<=", e.old.alloc, a.T), sx("<", a.T, e.st.alloc)), S: SBool}
		case "allocated":
			a := e.tr(n.Args[0])
			return Val{T: sAnd(sx("<", "0", a.T), sx("<", a.T, e.st.alloc)), S: SBool}
		case "ev":
			// ev(format, a0, a1, ...) with arguments boxed as interface values
			f := e.tr(n.Args[0])
			args := []string{"(mk_iface 0 0)", "(mk_iface 0 0)", "(mk_iface 0 0)", "(mk_iface 0 0)"}
			for i, a := range n.Args[1:] {
				v := e.tr(a)
				if v.S == SIface {
					args[i] = v.T
				} else {
					if v.GT == nil {
						e.fail("ev argument of unknown Go type")
					}
					args[i] = c.boxIface(v, v.GT)
				}
			}
			return Val{T: sx("mk_ev", f.T, sInt(int64(len(n.Args)-1)), args[0], args[1], args[2], args[3]), S: SEvent}
		case "evfmt":
			a := e.tr(n.Args[0])
			return Val{T: sx("ev_fmt", a.T), S: SInt, GT: types.Typ[types.String]}
		case "evn":
			a := e.tr(n.Args[0])
			return Val{T: sx("ev_n", a.T), S: SInt, GT: types.Typ[types.Int]}
		case "eva":
			a := e.tr(n.Args[0])
			k := n.Args[1].(*EInt).V
			return Val{T: sx(fmt.Sprintf("ev_a%d", k), a.T), S: SIface}
		case "evs":
			f := e.tr(n.Args[0])
			s := e.tr(n.Args[1])
			return Val{T: c.eventOf(e.st, f.T, s), S: SEvent}
		case "slicelit":
			e.fail("slicelit unsupported")
		case "mapof", "elems":
			e.fail("%s is only valid in modifies clauses", name)
		}
		if d, ok := c.V.DB.Defines[name]; ok {
			if len(d.Params) != len(n.Args) {
				e.fail("define %s: arity", name)
			}
			ch := e.child()
			// evaluate args in caller env
			vals := make([]Val, len(n.Args))
			for i, a := range n.Args {
				vals[i] = e.tr(a)
			}
			ch.vars = map[string]Val{}
			for k, v := range e.vars {
				if e.bound[k] {
					ch.vars[k] = v
				}
			}
			for i, p := range d.Params {
				ch.vars[p.Name] = vals[i]
			}
			ch.resolve = nil
			ch.facts = nil
			r := ch.tr(d.Body)
			e.facts = append(e.facts, ch.facts...)
			return r
		}
		if u, ok := c.V.DB.UFuns[name]; ok {
			var sorts []Sort
			var args []string
			for i, a := range n.Args {
				v := e.tr(a)
				want := sortByName(u.Args[i])
				if v.S == "nil" {
					v, _ = e.coerceNil(v, Val{S: want})
				}
				if want == SIface && v.S != SIface && v.GT != nil {
					v = Val{T: c.boxIface(v, v.GT), S: SIface}
				}
				if v.S != want {
					e.fail("ufun %s arg %d (%s): sort %s, want %s", name, i, describe(a), v.S, want)
				}
				sorts = append(sorts, want)
				args = append(args, v.T)
			}
			c.ufun(name, sorts, sortByName(u.Res))
			if u.Res == "str" {
				return Val{T: sx(name, args...), S: SInt, GT: types.Typ[types.String]}
			}
			return Val{T: sx(name, args...), S: sortByName(u.Res)}
		}
		// application of a function-valued parameter / variable
		if fv, ok := e.vars[name]; ok || e.resolve != nil {
			if !ok {
				fv, ok = e.tryResolve(name)
			}
			if ok && fv.GT != nil {
				if sig, isSig := fv.GT.Underlying().(*types.Signature); isSig && sig.Results().Len() == 1 {
					var vals []Val
					for _, a := range n.Args {
						vals = append(vals, e.tr(a))
					}
					r := c.applyTerm(fv, vals, sig.Results().At(0).Type())
					if e.applies != nil {
						*e.applies = append(*e.applies, applyRec{Param: name, Term: r.T, Args: vals, S: r.S})
					}
					c.note("function-valued parameters are treated as deterministic functions without effect on the modelled heap during the call")
					return r
				}
			}
		}
		// pure module function
		if f := c.V.Funcs[c.home.Name()+":"+name]; f != nil {
			return e.pureApp(f, nil, n.Args)
		}
		e.fail("unknown function %q", name)
	}
	if s, ok := n.Fun.(*ESel); ok {
		// pkg.Func(...) ?
		if id, ok := s.X.(*EIdent); ok {
			if _, isVar := e.vars[id.Name]; !isVar {
				if _, found := e.tryResolve(id.Name); !found {
					if p := c.V.TypesByPkgName[id.Name]; p != nil {
						if obj, ok := p.Scope().Lookup(s.Name).(*types.Func); ok {
							f := c.V.Prog.FuncValue(obj)
							if f != nil {
								return e.pureApp(f, nil, n.Args)
							}
						}
					}
				}
			}
		}
		// method call
		recv := e.tr(s.X)
		if recv.GT == nil {
			e.fail("method call on value of unknown type")
		}
		if _, isIface := recv.GT.Underlying().(*types.Interface); isIface {
			key := types.TypeString(recv.GT, nil) + "." + s.Name
			con := c.V.DB.Contracts[key]
			if con == nil || !con.Pure {
				e.fail("interface method %s is not declared pure in lib.spec", key)
			}
			m, _, _ := types.LookupFieldOrMethod(recv.GT, false, nil, s.Name)
			if m == nil {
				e.fail("no method %s", key)
			}
			return e.pureSym(key, con, m.Type().(*types.Signature), &recv, n.Args, nil)
		}
		obj, path, _ := types.LookupFieldOrMethod(recv.GT, true, c.home, s.Name)
		fo, ok := obj.(*types.Func)
		if !ok {
			e.fail("no method %s on %s", s.Name, tstr(recv.GT))
		}
		// promoted method: walk the embedded fields as go/ssa does (&recv.embedded)
		for _, fi := range path[:len(path)-1] {
			pt := derefType(recv.GT)
			if pt == nil {
				e.fail("promoted method %s through a non-pointer receiver is not supported", s.Name)
			}
			l := c.locField(c.ptrLoc(recv.T, pt, false), fi)
			ft := pt.Underlying().(*types.Struct).Field(fi).Type()
			if _, isPtr := ft.Underlying().(*types.Pointer); isPtr {
				recv = c.loadLoc(e.st, l)
			} else {
				var dummy []Item
				recv = c.locValue(e.st, l, &dummy)
			}
		}
		f := c.V.Prog.FuncValue(fo)
		if f != nil && c.V.inModule(f) {
			return e.pureApp(f, &recv, n.Args)
		}
		// library method: keyed as go/ssa names the call target
		key := "(" + types.TypeString(recv.GT, nil) + ")." + s.Name
		con := c.V.DB.Contracts[key]
		if con == nil || !con.Pure {
			e.fail("method %s is used in a contract but is not declared pure in lib.spec", key)
		}
		return e.pureSym(key, con, fo.Type().(*types.Signature), &recv, n.Args, nil)
	}
	e.fail("unsupported call form")
	return Val{}
}

// pureApp applies a pure function (module or library) as an uninterpreted symbol.
func (e *SEnv) pureApp(f *ssa.Function, recv *Val, args []Expr) Val {
	con := e.c.V.contractOf(f)
	if con == nil || !con.Pure {
		e.fail("function %s is used in a contract but is not declared pure", f.String())
	}
	key := f.String()
	if k, ok := e.c.V.FuncKey[f]; ok {
		key = k // module functions: the same symbol as at their call sites
	}
	return e.pureSym(key, con, f.Signature, recv, args, f)
}

func (e *SEnv) pureSym(key string, con *Contract, sig *types.Signature, recv *Val, args []Expr, f *ssa.Function) Val {
	c := e.c
	var vals []Val
	if recv != nil {
		vals = append(vals, *recv)
	}
	for i, a := range args {
		v := e.tr(a)
		if v.S == "nil" {
			pi := i
			v, _ = e.coerceNil(v, Val{S: c.sortOf(sig.Params().At(pi).Type())})
		}
		vals = append(vals, v)
	}
	return c.pureTerm(key, con, sig, vals, recv != nil)
}

// pureTerm declares the uninterpreted symbol of a pure function and returns its application.
// The ensures clauses of the pure function are instantiated at this application (ground facts);
// a quantified axiom is emitted only when an application occurs under a binder.
func (c *FnCtx) pureTerm(key string, con *Contract, sig *types.Signature, vals []Val, hasRecv bool) Val {
	name := "pf_" + mangle(key)
	var sorts []string
	var ts []string
	for _, v := range vals {
		sorts = append(sorts, string(v.S))
		ts = append(ts, v.T)
	}
	res := sig.Results()
	if res.Len() != 1 {
		panic("spec: pure function " + key + " must have exactly one result")
	}
	rs := c.sortOf(res.At(0).Type())
	if !c.D.seen[name] {
		c.D.add(name, fmt.Sprintf("(declare-fun %s (%s) %s)", name, strings.Join(sorts, " "), rs))
		c.usedLib[key] = true
	}
	app := sx(name, ts...)
	under := false
	for _, t := range ts {
		if strings.Contains(t, "q_") || strings.Contains(t, "a0") {
			under = mentionsBound(t)
			if under {
				break
			}
		}
	}
	if under {
		if !c.D.seen["ax:"+name] {
			c.pureAxioms(name, key, con, sig, vals, hasRecv, rs)
		}
	} else if !c.grounded[app] {
		c.grounded[app] = true
		c.pureInstance(name, key, con, sig, vals, hasRecv, rs, app)
	}
	return Val{T: app, S: rs, GT: res.At(0).Type()}
}

// mentionsBound reports whether term t mentions a quantifier-bound variable (q_<name> or a<k>).
func mentionsBound(t string) bool {
	for i := 0; i < len(t); i++ {
		if (i == 0 || t[i-1] == ' ' || t[i-1] == '(') && i+1 < len(t) {
			if t[i] == 'q' && t[i+1] == '_' {
				return true
			}
			if t[i] == 'a' && t[i+1] >= '0' && t[i+1] <= '9' {
				j := i + 1
				for j < len(t) && t[j] >= '0' && t[j] <= '9' {
					j++
				}
				if j == len(t) || t[j] == ' ' || t[j] == ')' {
					return true
				}
			}
		}
	}
	return false
}

func (c *FnCtx) bindPureParams(e *SEnv, con *Contract, sig *types.Signature, vals []Val, hasRecv bool) []string {
	var guards []string
	add := func(pname string, t types.Type, v Val) {
		if v.GT == nil {
			v.GT = t
		}
		e.vars[pname] = v
		if t != nil {
			if _, isPtr := t.Underlying().(*types.Pointer); isPtr && !con.Nullable[pname] {
				guards = append(guards, sNot(sEq(v.T, "0")))
			}
		}
	}
	k := 0
	if hasRecv {
		var rt types.Type
		if sig.Recv() != nil {
			rt = sig.Recv().Type()
		} else {
			rt = vals[0].GT
		}
		add("recv", rt, vals[0])
		if sig.Recv() != nil && sig.Recv().Name() != "" {
			e.vars[sig.Recv().Name()] = e.vars["recv"]
		}
		k = 1
	}
	for i := 0; i < sig.Params().Len() && k+i < len(vals); i++ {
		p := sig.Params().At(i)
		pn := p.Name()
		if pn == "" || pn == "_" {
			pn = fmt.Sprintf("arg%d", i)
		}
		add(pn, p.Type(), vals[k+i])
	}
	return guards
}

func (c *FnCtx) pureInstance(name, key string, con *Contract, sig *types.Signature, vals []Val, hasRecv bool, rs Sort, app string) {
	if len(con.Ensures) == 0 {
		return
	}
	e := &SEnv{c: c, st: c.entry, old: c.entry, vars: map[string]Val{}, bound: map[string]bool{}}
	guards := c.bindPureParams(e, con, sig, vals, hasRecv)
	e.results = []Val{{T: app, S: rs, GT: sig.Results().At(0).Type()}}
	for _, r := range con.Requires {
		guards = append(guards, e.trBool(r.E))
	}
	var posts []string
	for _, cl := range con.Ensures {
		posts = append(posts, e.trAssume(cl.E))
	}
	c.defs = append(c.defs, sImp(sAnd(guards...), sAnd(posts...)))
}

// pureAxioms emits the forall-axiom for the ensures clauses of a pure function.
func (c *FnCtx) pureAxioms(name, key string, con *Contract, sig *types.Signature, vals []Val, hasRecv bool, rs Sort) {
	if len(con.Ensures) == 0 {
		return
	}
	e := &SEnv{c: c, st: c.entry, old: c.entry, vars: map[string]Val{}, bound: map[string]bool{}}
	var decls, args []string
	qvals := make([]Val, len(vals))
	for i, v := range vals {
		q := fmt.Sprintf("a%d", i)
		decls = append(decls, fmt.Sprintf("(%s %s)", q, v.S))
		args = append(args, q)
		qvals[i] = Val{T: q, S: v.S, GT: v.GT}
	}
	guards := c.bindPureParams(e, con, sig, qvals, hasRecv)
	for k := range e.vars {
		e.bound[k] = true
	}
	app := sx(name, args...)
	e.results = []Val{{T: app, S: rs, GT: sig.Results().At(0).Type()}}
	for _, r := range con.Requires {
		guards = append(guards, e.trBool(r.E))
	}
	var posts []string
	for _, cl := range con.Ensures {
		posts = append(posts, e.trBool(cl.E))
	}
	if len(decls) == 0 {
		c.addAxiom(name, sImp(sAnd(guards...), sAnd(posts...)))
		return
	}
	c.addAxiom(name, fmt.Sprintf("(forall (%s) (! %s :pattern (%s)))", strings.Join(decls, " "), sImp(sAnd(guards...), sAnd(posts...)), app))
	c.note("quantified axiom for pure function " + key)
}

// mapLen: cardinality of a map, abstract with the facts len >= 0 and len == 0 <=> empty.
func (c *FnCtx) mapLen(st *State, m Val) string {
	mt := m.GT.Underlying().(*types.Map)
	md, _ := c.mapArrs(m.GT)
	ds := arrSort(c.sortOf(mt.Key()), SBool)
	f := "card_" + mangle(string(ds))
	c.D.add(f, fmt.Sprintf("(declare-fun %s (%s) Int)", f, ds))
	d := sSel(c.arrIn(st, md), m.T)
	app := sx(f, d)
	if mentionsBound(d) {
		c.addAxiom(f, fmt.Sprintf("(forall ((d %s)) (! (and (>= (%s d) 0) (= (= (%s d) 0) (= d ((as const %s) false)))) :pattern ((%s d))))", ds, f, f, ds, f))
	} else if !c.grounded[app] {
		c.grounded[app] = true
		c.defs = append(c.defs, fmt.Sprintf("(and (>= %s 0) (= (= %s 0) (= %s ((as const %s) false))))", app, app, d, ds))
	}
	return sIte(sEq(m.T, "0"), "0", app)
}

// eventOf builds the emission event for format f and argument slice s ([]interface{}).
func (c *FnCtx) eventOf(st *State, f string, s Val) string {
	et := types.NewInterfaceType(nil, nil)
	arr := c.backArr(et)
	data := sSel(c.arrIn(st, arr), sx("sref", s.T))
	arg := func(i int) string {
		return sIte(sx("<", sInt(int64(i)), sx("slen", s.T)), sSel(data, c.ix(sx("soff", s.T), sInt(int64(i)))), "(mk_iface 0 0)")
	}
	return sx("mk_ev", f, sx("slen", s.T), arg(0), arg(1), arg(2), arg(3))
}

// addSpecAxioms adds global axioms from spec files (lib.spec `axiom` lines).
func (c *FnCtx) addSpecAxioms() {
	for i, ax := range c.V.DB.Axioms {
		e := &SEnv{c: c, st: c.entry, old: c.entry, vars: map[string]Val{}, bound: map[string]bool{}}
		ok := true
		var f string
		func() {
			defer func() {
				if r := recover(); r != nil {
					ok = false
				}
			}()
			// only add axioms whose symbols are already declared (relevant to this VC)
			f = e.trBool(ax.E)
		}()
		if ok {
			c.addAxiom(fmt.Sprintf("spec%d", i), f)
		}
	}
}

// definedHere: the definition of v dominates the block currently being translated.
func (c *FnCtx) definedHere(v ssa.Value) bool {
	in, ok := v.(ssa.Instruction)
	if !ok || c.curBlock == nil {
		return true
	}
	return in.Block() == c.curBlock || in.Block().Dominates(c.curBlock)
}
