package main

import "context"

func contextBackground() context.Context { return context.Background() }

// buildReplay: turn a failed obligation into a replay record (concretisers are added per function).
func buildReplay(v *Verifier, prop string, ob *Obligation) *Replay {
	rp := &Replay{Property: prop, Obligation: ob.Name, Kind: ob.Kind, Function: ob.Fn, Position: ob.Pos, Clause: ob.Text,
		Answer: ob.Result, Solver: ob.Solver, Output: truncate(ob.Model, 20000)}
	runConcretiser(v, prop, ob, rp)
	return rp
}

func truncate(s string, n int) string {
	if len(s) > n {
		return s[:n] + "\n...[truncated]"
	}
	return s
}
