package main

import (
	"fmt"
	"go/types"
	"sort"
	"strings"
)

// Sort is an SMT-LIB sort expression.
type Sort string

const (
	SInt   Sort = "Int"
	SBool  Sort = "Bool"
	SIface Sort = "Iface"
	SSlice Sort = "Slice"
	SEvent Sort = "Event"
)

func arrSort(idx, elem Sort) Sort { return Sort(fmt.Sprintf("(Array %s %s)", idx, elem)) }

// Val is a translated value: an SMT term with its sort and (optionally) its Go type.
type Val struct {
	T   string
	S   Sort
	Tup []Val
	GT  types.Type
}

func (v Val) IsTuple() bool { return v.Tup != nil }

// s-expression helpers
func sx(op string, args ...string) string {
	if len(args) == 0 {
		return op
	}
	return "(" + op + " " + strings.Join(args, " ") + ")"
}
func sAnd(args ...string) string {
	var a []string
	for _, x := range args {
		if x == "true" || x == "" {
			continue
		}
		if x == "false" {
			return "false"
		}
		a = append(a, x)
	}
	switch len(a) {
	case 0:
		return "true"
	case 1:
		return a[0]
	}
	return sx("and", a...)
}
func sOr(args ...string) string {
	var a []string
	for _, x := range args {
		if x == "false" || x == "" {
			continue
		}
		if x == "true" {
			return "true"
		}
		a = append(a, x)
	}
	switch len(a) {
	case 0:
		return "false"
	case 1:
		return a[0]
	}
	return sx("or", a...)
}
func sNot(x string) string {
	if x == "true" {
		return "false"
	}
	if x == "false" {
		return "true"
	}
	return sx("not", x)
}
func sImp(a, b string) string {
	if a == "true" {
		return b
	}
	if b == "true" {
		return "true"
	}
	if a == "false" {
		return "true"
	}
	return sx("=>", a, b)
}
func sEq(a, b string) string {
	if a == b {
		return "true"
	}
	return sx("=", a, b)
}
func sSel(a, i string) string      { return sx("select", a, i) }
func sStore(a, i, v string) string { return sx("store", a, i, v) }
func sInt(n int64) string {
	if n < 0 {
		return fmt.Sprintf("(- %d)", -n)
	}
	return fmt.Sprintf("%d", n)
}
func sIte(c, a, b string) string {
	if c == "true" {
		return a
	}
	if c == "false" {
		return b
	}
	return sx("ite", c, a, b)
}

func mangle(s string) string {
	var sb strings.Builder
	for _, c := range s {
		switch {
		case c >= 'a' && c <= 'z', c >= 'A' && c <= 'Z', c >= '0' && c <= '9', c == '_':
			sb.WriteRune(c)
		case c == '*':
			sb.WriteString("P")
		case c == '[':
			sb.WriteString("L")
		case c == ']':
			sb.WriteString("R")
		case c == '.', c == '/':
			sb.WriteString("_")
		case c == '{':
			sb.WriteString("B")
		case c == '}':
			sb.WriteString("E")
		case c == ' ':
		default:
			sb.WriteString(fmt.Sprintf("x%x", c))
		}
	}
	return sb.String()
}

// Decls collects SMT declarations in dependency order.
type Decls struct {
	order []string
	seen  map[string]bool
	text  map[string]string
}

func newDecls() *Decls { return &Decls{seen: map[string]bool{}, text: map[string]string{}} }

func (d *Decls) add(name, text string) {
	if d.seen[name] {
		return
	}
	d.seen[name] = true
	d.order = append(d.order, name)
	d.text[name] = text
}
func (d *Decls) constant(name string, s Sort) {
	d.add(name, fmt.Sprintf("(declare-fun %s () %s)", name, s))
}
func (d *Decls) String() string {
	var sb strings.Builder
	for _, n := range d.order {
		sb.WriteString(d.text[n])
		sb.WriteString("\n")
	}
	return sb.String()
}

// ---------- type universe ----------

// Universe holds program-wide naming shared by all function contexts: type tags,
// string literal ids, struct datatype layouts.
type Universe struct {
	typeID   map[string]int
	typeByID []types.Type
	strID    map[string]int
	strs     []string
	structs  map[string]*StructInfo // by datatype sort name
}

type StructInfo struct {
	SortName string
	T        *types.Struct
	Named    string
	Fields   []FieldInfo
}
type FieldInfo struct {
	Name string
	Acc  string // accessor
	S    Sort
	GT   types.Type
}

func newUniverse() *Universe {
	u := &Universe{typeID: map[string]int{}, strID: map[string]int{}, structs: map[string]*StructInfo{}}
	u.typeByID = append(u.typeByID, nil) // 0 = nil
	u.strs = append(u.strs, "")
	u.strID[""] = 0
	return u
}

func typeKey(t types.Type) string { return types.TypeString(t, nil) }

func (u *Universe) tagOf(t types.Type) int {
	k := typeKey(t)
	if id, ok := u.typeID[k]; ok {
		return id
	}
	id := len(u.typeByID)
	u.typeID[k] = id
	u.typeByID = append(u.typeByID, t)
	return id
}

func (u *Universe) strLit(s string) string {
	if id, ok := u.strID[s]; ok {
		return sInt(int64(id))
	}
	id := len(u.strs)
	u.strs = append(u.strs, s)
	u.strID[s] = id
	return sInt(int64(id))
}

// sortedTypeIDs lists (id, key) for reports.
func (u *Universe) sortedTypeIDs() []string {
	var out []string
	for k, id := range u.typeID {
		out = append(out, fmt.Sprintf("%d=%s", id, k))
	}
	sort.Strings(out)
	return out
}
