package main

import (
	"fmt"
	"go/types"
	"strings"

	"golang.org/x/tools/go/ssa"
)

// entryAssumptions: default non-nil preconditions and declared requires.
func (c *FnCtx) entryAssumptions(items *[]Item) {
	fn := c.fn
	for _, p := range fn.Params {
		if c.defaultNonNil(fn, c.con, p.Name(), p.Type()) {
			c.assume(items, sNot(sEq(c.env[p].V.T, "0")))
		}
	}
	for _, p := range fn.FreeVars {
		// free variables are pointers to captured variables (never nil) or captured values
		if _, isPtr := p.Type().Underlying().(*types.Pointer); isPtr {
			c.assume(items, sNot(sEq(c.env[p].V.T, "0")))
		}
	}
	if c.con != nil {
		env := c.specEnvFor(c.entry, c.entry, nil)
		for _, r := range c.con.Requires {
			f := env.trAssume(r.E)
			for _, ft := range env.facts {
				c.assume(items, ft)
			}
			env.facts = nil
			c.assume(items, f)
		}
	}
}

// defaultNonNil: pointer-typed parameters of module functions are non-nil unless declared nullable.
func (c *FnCtx) defaultNonNil(fn *ssa.Function, con *Contract, name string, t types.Type) bool {
	switch t.Underlying().(type) {
	case *types.Pointer, *types.Signature:
	default:
		return false
	}
	if con != nil && con.Nullable[name] {
		return false
	}
	return true
}

func (c *FnCtx) call(in ssa.CallInstruction, cc *ssa.CallCommon) Val {
	st := c.cur
	resT := cc.Signature().Results()
	var resType types.Type = resT
	if resT.Len() == 1 {
		resType = resT.At(0).Type()
	}
	if b, ok := cc.Value.(*ssa.Builtin); ok {
		return c.builtin(in, cc, b)
	}
	if sc := cc.StaticCallee(); sc != nil && c.con != nil && c.con.AtCall != nil {
		for _, cl := range c.con.AtCall[sc.Name()] {
			c.atNewSeen["call:"+sc.Name()] = true
			if !clauseActive(cl, c.prop) {
				continue
			}
			env := c.specEnvFor(c.cur, c.entry, nil)
			f := env.trGoal(cl.E)
			c.flushFacts(env)
			ob := c.assert(c.curItems, "requires", fmt.Sprintf("atcall:%s#%d", sc.Name(), cl.Ord), "", f, in, cl.Tags, len(cl.Tags) == 0)
			ob.Text = cl.Text
		}
	}
	if cc.IsInvoke() {
		recv := c.val(cc.Value)
		c.assert(c.curItems, "nilderef", "nilderef", exprText(cc.Value)+"."+cc.Method.Name()+"()", sNot(sEq(sx("itag", recv.T), "0")), in, nil, true)
		key := invokeKey(cc)
		con := c.V.DB.Contracts[key]
		args := []Val{recv}
		names := []string{"recv"}
		sig := cc.Signature()
		for i, a := range cc.Args {
			args = append(args, c.val(a))
			names = append(names, paramName(sig, i))
		}
		if con == nil {
			c.note("unspecified interface method " + key + ": result unconstrained, no effect on modelled heap")
			return c.havocVal("inv_"+cc.Method.Name(), resType, st, c.curItems)
		}
		c.usedLib[key] = true
		return c.applyContract(in, nil, con, key, sig, args, names, resType, true)
	}
	var callee *ssa.Function
	var extra []Val
	var extraNames []string
	switch f := cc.Value.(type) {
	case *ssa.Function:
		callee = f
	case *ssa.MakeClosure:
		callee = f.Fn.(*ssa.Function)
		for i, b := range f.Bindings {
			bv := c.val(b)
			fv := callee.FreeVars[i]
			if pt := derefType(fv.Type()); pt != nil && !strings.HasSuffix(callee.Name(), "$bound") {
				// captured variable: contracts of the closure talk about its content
				bv = c.loadLoc(st, c.ptrLoc(bv.T, pt, false))
			}
			extra = append(extra, bv)
			extraNames = append(extraNames, fv.Name())
		}
	}
	if callee == nil {
		// dynamic call through a function value
		fv := c.val(cc.Value)
		c.assert(c.curItems, "nilderef", "nilfunc", exprText(cc.Value), sNot(sEq(fv.T, "0")), in, nil, true)
		if pv, ok := cc.Value.(*ssa.Parameter); ok && c.con != nil && c.con.Callsback[pv.Name()] {
			c.havocAll("dyncall")
		}
		c.note("calls through function values: result unconstrained; unless the parameter is declared `callsback`, the callee is assumed not to modify the modelled heap (closures passed inside the module are checked side-effect free)")
		var avals []Val
		for _, a := range cc.Args {
			avals = append(avals, c.val(a))
		}
		if _, isParam := cc.Value.(*ssa.Parameter); isParam && !isTuple(resType) && !(c.con != nil && c.con.Callsback[cc.Value.Name()]) {
			r := c.applyTerm(fv, avals, resType)
			nv := c.freshConst("dyn", r.S)
			c.defs = append(c.defs, sEq(nv, r.T))
			r.T = nv
			c.assume(c.curItems, c.typeFacts(r, st))
			return r
		}
		return c.havocVal("dyn", resType, st, c.curItems)
	}
	sig := callee.Signature
	var args []Val
	var names []string
	for i, a := range cc.Args {
		args = append(args, c.val(a))
		if i < len(callee.Params) {
			names = append(names, callee.Params[i].Name())
		} else {
			names = append(names, fmt.Sprintf("arg%d", i))
		}
	}
	args = append(args, extra...)
	names = append(names, extraNames...)
	con := c.V.contractOf(callee)
	key := c.V.FuncKey[callee]
	inMod := c.V.inModule(callee)
	if !inMod && (callee.String() == "sort.Slice" || callee.String() == "sort.Strings") {
		// built-in model: contents of the slice argument become arbitrary (same length)
		var sv ssa.Value = cc.Args[0]
		if mi, ok := sv.(*ssa.MakeInterface); ok {
			sv = mi.X
		}
		if st2, ok := sv.Type().Underlying().(*types.Slice); ok {
			s := c.val(sv)
			a := c.backArr(st2.Elem())
			oldData := sSel(c.arrIn(st, a), sx("sref", s.T))
			nd := c.freshConst("sorted", arrSort(SInt, c.sortOf(st2.Elem())))
			c.setArr(st, a, sStore(c.arrIn(st, a), sx("sref", s.T), nd))
			// every element after sorting is one of the elements before (half of "permutation"; sortedness is not assumed)
			c.ix("0", "0")
			pf := c.fresh("perm")
			pi := c.fresh("perminv")
			c.D.add(pf, fmt.Sprintf("(declare-fun |%s| (Int) Int)", pf))
			c.D.add(pi, fmt.Sprintf("(declare-fun |%s| (Int) Int)", pi))
			c.assume(c.curItems, fmt.Sprintf("(forall ((i Int)) (! (=> (and (<= 0 i) (< i (slen %s))) (and (<= 0 (|%s| i)) (< (|%s| i) (slen %s)) (= (select %s (ix (soff %s) i)) (select %s (ix (soff %s) (|%s| i)))))) :pattern ((select %s (ix (soff %s) i)))))", s.T, pi, pi, s.T, nd, s.T, oldData, s.T, pi, nd, s.T))
			c.assume(c.curItems, fmt.Sprintf("(forall ((j Int)) (! (=> (and (<= 0 j) (< j (slen %s))) (and (<= 0 (|%s| j)) (< (|%s| j) (slen %s)) (= (select %s (ix (soff %s) (|%s| j))) (select %s (ix (soff %s) j))))) :pattern ((select %s (ix (soff %s) j)))))", s.T, pf, pf, s.T, nd, s.T, pf, oldData, s.T, oldData, s.T))
			if callee.String() == "sort.Strings" {
				le := c.ufun("str_le", []Sort{SInt, SInt}, SBool)
				c.assume(c.curItems, fmt.Sprintf("(forall ((i Int) (j Int)) (! (=> (and (<= 0 i) (< i j) (< j (slen %s))) (%s (select %s (ix (soff %s) i)) (select %s (ix (soff %s) j)))) :pattern ((select %s (ix (soff %s) i)) (select %s (ix (soff %s) j)))))", s.T, le, nd, s.T, nd, s.T, nd, s.T, nd, s.T))
				c.note("sort.Strings: built-in model (a permutation of the elements, ascending in the string order str_le)")
			} else {
				c.note(callee.String() + ": built-in model (same elements before and after, same length; sortedness not assumed)")
			}
		}
		c.libCallbackEffects(cc)
		return Val{Tup: []Val{}}
	}
	if !inMod && sig.Recv() != nil && len(args) > 0 {
		if _, isPtr := sig.Recv().Type().Underlying().(*types.Pointer); isPtr && !(con != nil && con.Nullable["recv"]) {
			if !c.isLocal(cc.Args[0]) {
				c.assert(c.curItems, "nilderef", "nilderef", exprText(cc.Args[0])+"."+callee.Name()+"()", sNot(sEq(args[0].T, "0")), in, nil, true)
			}
		}
	}
	if !inMod {
		key = libKey(callee)
		if callee.Blocks == nil || true {
			// names for library functions come from the signature
			names = names[:0]
			off := 0
			if sig.Recv() != nil {
				names = append(names, "recv")
				off = 1
			}
			for i := off; i < len(cc.Args); i++ {
				names = append(names, paramName(sig, i-off))
			}
		}
	}
	for _, a := range cc.Args {
		if mc := asClosure(a); mc != nil {
			c.assertClosureRequires(mc, in)
		}
	}
	// purity of closures handed to module functions
	if inMod {
		for ai, a := range cc.Args {
			if mc := asClosure(a); mc != nil {
				cf := mc.Fn.(*ssa.Function)
				if len(c.V.ModSets[cf]) > 0 && !(con != nil && ai < len(callee.Params) && con.Callsback[callee.Params[ai].Name()]) {
					c.assert(c.curItems, "purity", "purity", cf.Name(), "false", in, nil, true)
				}
			}
		}
	}
	if con == nil {
		if !inMod {
			c.note("unspecified library function " + key + ": result unconstrained, no effect on modelled heap")
			c.libCallbackEffects(cc)
			return c.havocVal("lib_"+mangle(callee.Name()), resType, st, c.curItems)
		}
		con = &Contract{Key: key, Nullable: map[string]bool{}}
	}
	if !inMod {
		c.usedLib[key] = true
	}
	preState := c.cur.clone()
	r := c.applyContractFn(in, callee, con, key, sig, args, names, resType, inMod)
	if inMod && len(con.Callsback) > 0 {
		c.libCallbackEffects(cc) // the callee may run the closures it was handed
	}
	if !inMod {
		for _, a := range cc.Args {
			if pv, ok := a.(*ssa.Parameter); ok && c.con != nil && c.con.Callsback[pv.Name()] {
				c.havocAll("libcallback")
			}
		}
	}
	if !inMod {
		c.libCallbackEffects(cc)
		if strings.HasSuffix(key, "typeutil.Map).Iterate") {
			c.iterateEach(cc, preState)
		}
	}
	return r
}

func paramName(sig *types.Signature, i int) string {
	if i < sig.Params().Len() {
		n := sig.Params().At(i).Name()
		if n != "" && n != "_" {
			return n
		}
	}
	return fmt.Sprintf("arg%d", i)
}

// libCallbackEffects: a library function that receives closures may run them: havoc their modification sets.
func (c *FnCtx) libCallbackEffects(cc *ssa.CallCommon) {
	st := c.cur
	preCall := st.clone()
	mods := map[string]bool{}
	for _, a := range cc.Args {
		if mc := asClosure(a); mc != nil {
			cf := mc.Fn.(*ssa.Function)
			// bound-method closure of a method with a precise modifies clause: havoc only those locations
			if strings.HasSuffix(cf.Name(), "$bound") && len(mc.Bindings) == 1 {
				if obj, ok := cf.Object().(*types.Func); ok {
					if m := c.V.Prog.FuncValue(obj); m != nil {
						if mcon := c.V.contractOf(m); mcon != nil && mcon.HasMod && len(m.Params) >= 1 {
							env := &SEnv{c: c, st: st, old: st, vars: map[string]Val{m.Params[0].Name(): c.val(mc.Bindings[0])}, bound: map[string]bool{}}
							okAll := true
							func() {
								defer func() {
									if rec := recover(); rec != nil {
										okAll = false
									}
								}()
								for _, me := range mcon.Modifies {
									c.applyMod(env, me, st)
								}
							}()
							if okAll {
								na := c.freshConst("alloc@cb", SInt)
								c.assume(c.curItems, sx("<=", st.alloc, na))
								st.alloc = na
								continue
							}
						}
					}
				}
			}
			for n := range c.V.ModSets[cf] {
				mods[n] = true
			}
			if con := c.V.contractOf(cf); con != nil && con.HasMod {
				// precise modifies of the closure cannot be mapped without bindings; keep whole arrays
				for _, m := range con.Modifies {
					for _, n := range c.V.modExprArrays(m, cf) {
						mods[n] = true
					}
				}
			}
		}
	}
	if mods["*"] {
		c.havocAll("cb")
	}
	for n := range mods {
		if n == "*" || !c.ensureArr(n) {
			continue
		}
		st.arr[n] = c.freshConst(n+"@cb", c.arrSorts[n])
	}
	if len(mods) > 0 {
		na := c.freshConst("alloc@cb", SInt)
		c.assume(c.curItems, sx("<=", st.alloc, na))
		st.alloc = na
	}
	// callback schema: the parameter-free preconditions of a callback act as the invariant of the
	// callback loop: asserted at hand-over (assertClosureRequires), re-established by the closure on
	// every return (requires-preserved obligations), hence they hold after the library call.
	for _, a := range cc.Args {
		if mc := asClosure(a); mc != nil {
			c.closureRequires(mc, func(r *Clause, f string) {
				c.assume(c.curItems, f)
			})
			// frame clauses: transitive two-state properties proved for every invocation hold
			// between the state before the library call and the state after it
			cf := mc.Fn.(*ssa.Function)
			if con := c.V.contractOf(cf); con != nil {
				for _, fr := range con.Frames {
					env := &SEnv{c: c, st: st, old: preCall, vars: map[string]Val{}, bound: map[string]bool{}}
					for bi, b := range mc.Bindings {
						fv := cf.FreeVars[bi]
						bv := c.val(b)
						if pt := derefType(fv.Type()); pt != nil && !strings.HasSuffix(cf.Name(), "$bound") {
							// captured cell: its content may differ between the two states; bind the name to the cell
							// content in the new state, and let old(...) re-read it from the old state
							env.vars[fv.Name()] = c.loadLoc(st, c.ptrLoc(bv.T, pt, false))
						} else {
							env.vars[fv.Name()] = bv
						}
					}
					c.assume(c.curItems, env.trAssume(fr.E))
					c.note("callback frame clause (must be reflexive and transitive): " + fr.Text)
				}
			}
		}
	}
}

// iterateEach: trusted schema of (*typeutil.Map).Iterate(f): f is invoked for every key of the
// receiver (as it was at the call). For an "each q :: P(q)" clause of the callback (established for
// tid(key) at every return and proved stable), P(q) therefore holds afterwards for every q in the
// receiver's domain.
func (c *FnCtx) iterateEach(cc *ssa.CallCommon, pre *State) {
	if len(cc.Args) < 2 {
		return
	}
	mc, ok := cc.Args[1].(*ssa.MakeClosure)
	if !ok {
		return
	}
	cf := mc.Fn.(*ssa.Function)
	con := c.V.contractOf(cf)
	if con == nil || len(con.Each) == 0 {
		return
	}
	recv := c.val(cc.Args[0])
	st := c.cur
	c.ghostArr("TMD")
	for i, cl := range con.Each {
		qn := con.EachVar[i]
		env := &SEnv{c: c, st: st, old: st, vars: map[string]Val{}, bound: map[string]bool{}}
		for bi, b := range mc.Bindings {
			fv := cf.FreeVars[bi]
			bv := c.val(b)
			if pt := derefType(fv.Type()); pt != nil && !strings.HasSuffix(cf.Name(), "$bound") {
				env.vars[fv.Name()] = c.loadLoc(st, c.ptrLoc(bv.T, pt, false))
			} else {
				env.vars[fv.Name()] = bv
			}
		}
		env.vars[qn] = Val{T: "q_" + qn, S: SInt, GT: types.Typ[types.Int]}
		env.bound[qn] = true
		body := env.trAssume(cl.E)
		dom := sSel(sSel(c.arrIn(pre, "TMD"), recv.T), "q_"+qn)
		c.assume(c.curItems, fmt.Sprintf("(forall ((q_%s Int)) %s)", qn, sImp(dom, body)))
		c.note("Iterate schema (trusted): the callback runs for every key of the receiver; each-clause: " + cl.Text)
	}
}

// closureRequires evaluates the parameter-free preconditions of closure mc in the current state.
func (c *FnCtx) closureRequires(mc *ssa.MakeClosure, use func(r *Clause, f string)) {
	c.closureRequiresPol(mc, 1, use)
}

func (c *FnCtx) closureRequiresPol(mc *ssa.MakeClosure, pol int, use func(r *Clause, f string)) {
	cf := mc.Fn.(*ssa.Function)
	con := c.V.contractOf(cf)
	if con == nil || len(con.Requires) == 0 {
		return
	}
	st := c.cur
	env := &SEnv{c: c, st: st, old: st, vars: map[string]Val{}, bound: map[string]bool{}}
	for i, b := range mc.Bindings {
		fv := cf.FreeVars[i]
		bv := c.val(b)
		if pt := derefType(fv.Type()); pt != nil && !strings.HasSuffix(cf.Name(), "$bound") {
			env.vars[fv.Name()] = c.loadLoc(st, c.ptrLoc(bv.T, pt, false))
		} else {
			env.vars[fv.Name()] = bv
		}
	}
	for _, r := range con.Requires {
		var f string
		ok := true
		func() {
			defer func() {
				if rec := recover(); rec != nil {
					ok = false
				}
			}()
			env.pol = pol
			f = env.trBool(r.E)
		}()
		if !ok {
			c.note("callback schema fact assumed in " + c.V.FuncKey[cf] + ": " + r.Text)
			continue
		}
		use(r, f)
	}
}

func (c *FnCtx) applyContractFn(in ssa.CallInstruction, callee *ssa.Function, con *Contract, key string, sig *types.Signature, args []Val, names []string, resType types.Type, inMod bool) Val {
	return c.applyContract(in, callee, con, key, sig, args, names, resType, !inMod)
}

// applyContract: assert requires, apply effects, havoc result, assume ensures.
func (c *FnCtx) applyContract(in ssa.CallInstruction, callee *ssa.Function, con *Contract, key string, sig *types.Signature, args []Val, names []string, resType types.Type, lib bool) Val {
	st := c.cur
	pre := st.clone()
	short := key
	if i := strings.LastIndex(short, "/"); i >= 0 {
		short = short[i+1:]
	}
	short = strings.Replace(short, ":", ".", 1)
	env := &SEnv{c: c, st: pre, old: pre, vars: map[string]Val{}, bound: map[string]bool{}, callee: callee}
	for i, n := range names {
		if i < len(args) {
			env.vars[n] = args[i]
		}
	}
	if sig.Recv() != nil && sig.Recv().Name() != "" && len(args) > 0 {
		env.vars[sig.Recv().Name()] = args[0]
	}
	// default non-nil for module callees
	if !lib && callee != nil {
		for i, p := range callee.Params {
			if i < len(args) && c.defaultNonNil(callee, con, p.Name(), p.Type()) {
				c.assert(c.curItems, "requires", "requires@"+short+"#nonnil", p.Name(), sNot(sEq(args[i].T, "0")), in, nil, true)
			}
		}
	}
	for _, r := range con.Requires {
		if !clauseActive(r, c.prop) {
			continue
		}
		parts := c.V.DB.splitConj(r.E, 0)
		for pi, pe := range parts {
			f := env.trGoal(pe)
			for _, ft := range env.facts {
				c.assume(c.curItems, ft)
			}
			env.facts = nil
			stem := fmt.Sprintf("requires@%s#%d", short, r.Ord)
			if len(parts) > 1 {
				stem = fmt.Sprintf("requires@%s#%d.%d", short, r.Ord, pi+1)
			}
			ob := c.assert(c.curItems, "requires", stem, "", f, in, r.Tags, len(r.Tags) == 0)
			ob.Text = r.Text
		}
	}
	// effects
	if con.HasMod {
		for _, m := range con.Modifies {
			c.applyMod(env, m, st)
		}
	} else if callee != nil && !lib {
		if c.V.ModSets[callee]["*"] {
			// "*" stands for the effects of the callee's `callsback` parameters: if every such
			// parameter is bound to a closure created here, those closures' own modification sets
			// (applied by libCallbackEffects after the call) describe the effect precisely.
			known := true
			if cin, ok := in.(ssa.CallInstruction); ok {
				for ai, a := range cin.Common().Args {
					if ai < len(callee.Params) && con.Callsback[callee.Params[ai].Name()] {
						switch {
						case asClosure(a) != nil:
						default:
							if k, isConst := a.(*ssa.Const); !isConst || k.Value != nil {
								known = false
							}
						}
					}
				}
			}
			if !known {
				c.havocAll("call")
			}
		}
		for n := range c.V.ModSets[callee] {
			if n == "*" || !c.ensureArr(n) {
				continue
			}
			st.arr[n] = c.freshConst(n+"@call", c.arrSorts[n])
		}
	}
	if !con.Pure {
		na := c.freshConst("alloc@call", SInt)
		c.assume(c.curItems, sx("<=", st.alloc, na))
		st.alloc = na
	}
	// result
	var res Val
	if con.Pure && resType != nil && !isTuple(resType) {
		res = c.pureTerm(key, con, sig, args, sig.Recv() != nil || (callee == nil))
		nv := c.freshConst("res_"+mangle(shortName(key)), res.S)
		c.defs = append(c.defs, sEq(nv, res.T))
		res.T = nv
		c.assume(c.curItems, c.typeFacts(res, st))
	} else {
		res = c.havocVal("res_"+mangle(shortName(key)), resType, st, c.curItems)
	}
	if con.Fresh && !res.IsTuple() {
		c.assume(c.curItems, sAnd(sx("<=", pre.alloc, res.T), sx("<", res.T, st.alloc)))
	}
	// ensures
	var applies []applyRec
	post := &SEnv{c: c, st: st, old: pre, vars: env.vars, bound: map[string]bool{}, callee: callee, applies: &applies}
	if res.IsTuple() {
		post.results = res.Tup
		for i := 0; i < sig.Results().Len() && i < len(res.Tup); i++ {
			if n := sig.Results().At(i).Name(); n != "" && n != "_" {
				post.vars[n] = res.Tup[i]
			}
		}
	} else {
		post.results = []Val{res}
		if sig.Results().Len() == 1 {
			if n := sig.Results().At(0).Name(); n != "" && n != "_" {
				post.vars[n] = res
			}
		}
	}
	if !con.Pure { // pure ensures are available as axioms
		for _, e := range con.Ensures {
			f := post.trAssume(e.E)
			for _, ft := range post.facts {
				c.assume(c.curItems, ft)
			}
			post.facts = nil
			c.assume(c.curItems, f)
		}
	}
	// link applications of function-valued parameters to the contract of the closure passed here
	if cin, ok := in.(ssa.CallInstruction); ok && callee != nil {
		for _, ar := range applies {
			if mentionsBound(ar.Term) {
				continue
			}
			for ai, a := range cin.Common().Args {
				if ai < len(callee.Params) && callee.Params[ai].Name() == ar.Param {
					if mc := asClosure(a); mc != nil {
						c.instantiateClosure(mc, ar, st)
					}
				}
			}
		}
	}
	return res
}

func shortName(key string) string {
	if i := strings.LastIndexAny(key, "/:"); i >= 0 {
		return key[i+1:]
	}
	return key
}

func isTuple(t types.Type) bool { _, ok := t.(*types.Tuple); return ok }

// applyMod havocs one modifies-location.
func (c *FnCtx) applyMod(env *SEnv, m Expr, st *State) {
	switch x := m.(type) {
	case *EIdent:
		if _, s, ok := c.ghostArr(x.Name); ok {
			st.arr[x.Name] = c.freshConst(x.Name+"@mod", s)
			return
		}
		if s, ok := c.arrSorts[x.Name]; ok {
			st.arr[x.Name] = c.freshConst(x.Name+"@mod", s)
			return
		}
		// array not used in this VC: nothing to havoc
	case *EIndex:
		id, ok := x.X.(*EIdent)
		if !ok {
			panic("spec: modifies NAME[expr] expected")
		}
		name := id.Name
		s, ok := c.arrSorts[name]
		if !ok {
			if _, gs, ok2 := c.ghostArr(name); ok2 {
				s = gs
			} else {
				return
			}
		}
		idx := env.tr(x.I)
		nv := c.freshConst(name+"@modv", elemSortOf(s))
		c.setArr(st, name, sStore(c.arrIn(st, name), idx.T, nv))
	case *ESel:
		base := env.tr(x.X)
		pt := derefType(base.GT)
		if pt == nil {
			panic("spec: modifies x.f needs pointer x")
		}
		stt := pt.Underlying().(*types.Struct)
		for i := 0; i < stt.NumFields(); i++ {
			if stt.Field(i).Name() == x.Name {
				arr := c.fieldArr(pt, i)
				nv := c.freshConst(arr+"@modv", c.sortOf(stt.Field(i).Type()))
				v := Val{T: nv, S: c.sortOf(stt.Field(i).Type()), GT: stt.Field(i).Type()}
				c.assume(c.curItems, c.typeFacts(v, st))
				c.setArr(st, arr, sStore(c.arrIn(st, arr), base.T, nv))
				return
			}
		}
		panic("spec: modifies: no field " + x.Name)
	case *ECall:
		id, _ := x.Fun.(*EIdent)
		if id != nil && id.Name == "mapof" {
			m := env.tr(x.Args[0])
			md, mv := c.mapArrs(m.GT)
			mt := m.GT.Underlying().(*types.Map)
			c.setArr(st, md, sStore(c.arrIn(st, md), m.T, c.freshConst(md+"@modv", arrSort(c.sortOf(mt.Key()), SBool))))
			c.setArr(st, mv, sStore(c.arrIn(st, mv), m.T, c.freshConst(mv+"@modv", arrSort(c.sortOf(mt.Key()), c.sortOf(mt.Elem())))))
			return
		}
		if id != nil && id.Name == "elems" {
			s := env.tr(x.Args[0])
			et := s.GT.Underlying().(*types.Slice).Elem()
			a := c.backArr(et)
			c.setArr(st, a, sStore(c.arrIn(st, a), sx("sref", s.T), c.freshConst(a+"@modv", arrSort(SInt, c.sortOf(et)))))
			return
		}
		panic("spec: unsupported modifies form")
	default:
		panic("spec: unsupported modifies form")
	}
}

func (c *FnCtx) builtin(in ssa.CallInstruction, cc *ssa.CallCommon, b *ssa.Builtin) Val {
	st := c.cur
	switch b.Name() {
	case "len":
		a := c.val(cc.Args[0])
		switch {
		case a.S == SSlice:
			return Val{T: sx("slen", a.T), S: SInt, GT: types.Typ[types.Int]}
		case isString(cc.Args[0].Type()):
			return Val{T: sx(c.ufun("strlen", []Sort{SInt}, SInt), a.T), S: SInt, GT: types.Typ[types.Int]}
		case isMap(cc.Args[0].Type()):
			a.GT = cc.Args[0].Type()
			return Val{T: c.mapLen(st, a), S: SInt, GT: types.Typ[types.Int]}
		}
	case "cap":
		a := c.val(cc.Args[0])
		r := c.havocVal("cap", types.Typ[types.Int], st, c.curItems)
		if a.S == SSlice {
			c.assume(c.curItems, sx("<=", sx("slen", a.T), r.T))
		}
		return r
	case "append":
		return c.appendOp(in, cc)
	case "delete":
		m, k := c.val(cc.Args[0]), c.val(cc.Args[1])
		md, _ := c.mapArrs(cc.Args[0].Type())
		c.setArr(st, md, sStore(c.arrIn(st, md), m.T, sStore(sSel(c.arrIn(st, md), m.T), k.T, "false")))
		return Val{Tup: []Val{}}
	case "copy":
		d := c.val(cc.Args[0])
		et := cc.Args[0].Type().Underlying().(*types.Slice).Elem()
		a := c.backArr(et)
		c.setArr(st, a, sStore(c.arrIn(st, a), sx("sref", d.T), c.freshConst("copied", arrSort(SInt, c.sortOf(et)))))
		return c.havocVal("ncopied", types.Typ[types.Int], st, c.curItems)
	case "print", "println":
		return Val{Tup: []Val{}}
	}
	c.unsupp(in, "builtin "+b.Name())
	var resType types.Type = cc.Signature().Results()
	if cc.Signature().Results().Len() == 1 {
		resType = cc.Signature().Results().At(0).Type()
	}
	return c.havocVal("builtin", resType, st, c.curItems)
}

// appendOp models append with copy semantics (the result never aliases its first argument).
func (c *FnCtx) appendOp(in ssa.CallInstruction, cc *ssa.CallCommon) Val {
	st := c.cur
	s := c.val(cc.Args[0])
	rt := cc.Args[0].Type()
	stype, ok := rt.Underlying().(*types.Slice)
	if !ok {
		c.unsupp(in, "append to non-slice")
		return c.havocVal("append", rt, st, c.curItems)
	}
	et := stype.Elem()
	arr := c.backArr(et)
	c.note("append always returns a fresh backing array (no aliasing with its first argument); see the slice-alias lint")
	if isString(cc.Args[1].Type()) {
		// append([]byte, string...)
		t := c.val(cc.Args[1])
		ref := c.allocRef("append")
		ln := sx("+", sx("slen", s.T), sx(c.ufun("strlen", []Sort{SInt}, SInt), t.T))
		c.setArr(st, arr, sStore(c.arrIn(st, arr), ref, c.freshConst("appdata", arrSort(SInt, c.sortOf(et)))))
		return Val{T: sx("mk_slice", ref, "0", ln), S: SSlice, GT: rt}
	}
	t := c.val(cc.Args[1])
	// fixed-size varargs packing?
	fixed := -1
	if sl, ok := cc.Args[1].(*ssa.Slice); ok && sl.Low == nil && sl.High == nil {
		if al, ok := sl.X.(*ssa.Alloc); ok {
			if at, ok := derefType(al.Type()).Underlying().(*types.Array); ok {
				fixed = int(at.Len())
			}
		}
	}
	if k, ok := cc.Args[1].(*ssa.Const); ok && k.Value == nil {
		fixed = 0
	}
	if k, ok := cc.Args[0].(*ssa.Const); ok && k.Value == nil && fixed < 0 {
		// append([]T(nil), t...): a copy of t (whole backing array copied, same index space)
		ref := c.allocRef("append")
		c.setArr(st, arr, sStore(c.arrIn(st, arr), ref, sSel(c.arrIn(st, arr), sx("sref", t.T))))
		res := sIte(sEq(sx("slen", t.T), "0"), "(mk_slice 0 0 0)", sx("mk_slice", ref, sx("soff", t.T), sx("slen", t.T)))
		return Val{T: res, S: SSlice, GT: rt}
	}
	ref := c.allocRef("append")
	base := sx("+", sx("soff", s.T), sx("slen", s.T))
	c.ix("0", "0")
	old := sSel(c.arrIn(st, arr), sx("sref", s.T))
	var data string
	var newLen string
	if fixed >= 0 {
		data = old
		src := sSel(c.arrIn(st, arr), sx("sref", t.T))
		_, elemIsPtr := et.Underlying().(*types.Pointer)
		for i := 0; i < fixed; i++ {
			if elemIsPtr {
				c.assert(c.curItems, "nilelem", "nilelem", "append", sNot(sEq(sSel(src, c.ix(sx("soff", t.T), sInt(int64(i)))), "0")), in, nil, true)
			}
			data = sStore(data, c.ix(sx("soff", s.T), sx("+", sx("slen", s.T), sInt(int64(i)))), sSel(src, c.ix(sx("soff", t.T), sInt(int64(i)))))
		}
		newLen = sx("+", sx("slen", s.T), sInt(int64(fixed)))
	} else {
		d := c.freshConst("appdata", arrSort(SInt, c.sortOf(et)))
		src := sSel(c.arrIn(st, arr), sx("sref", t.T))
		ax := fmt.Sprintf("(forall ((i Int)) (! (and (=> (< i %s) (= (select %s i) (select %s i))) (=> (and (<= %s i) (< i (+ %s (slen %s)))) (= (select %s i) (select %s (+ (soff %s) (- i %s)))))) :pattern ((select %s i))))",
			base, d, old, base, base, t.T, d, src, t.T, base, d)
		c.assume(c.curItems, ax)
		data = d
		newLen = sx("+", sx("slen", s.T), sx("slen", t.T))
	}
	c.setArr(st, arr, sStore(c.arrIn(st, arr), ref, data))
	res := sx("mk_slice", ref, sx("soff", s.T), newLen)
	// Go: appending nothing to a nil slice yields nil
	if fixed != 0 {
		if fixed < 0 {
			res = sIte(sAnd(sEq(sx("sref", s.T), "0"), sEq(sx("slen", t.T), "0")), "(mk_slice 0 0 0)", res)
		}
	} else {
		res = sIte(sEq(sx("sref", s.T), "0"), "(mk_slice 0 0 0)", res)
	}
	return Val{T: res, S: SSlice, GT: rt}
}

// ---------- field invariants ----------

func (c *FnCtx) fieldInvFor(l *Loc, x ssa.Value) *FieldInv {
	fa, ok := x.(*ssa.FieldAddr)
	if !ok {
		return nil
	}
	pt := derefType(fa.X.Type())
	st := pt.Underlying().(*types.Struct)
	fname := st.Field(fa.Field).Name()
	tn := tstr(pt)
	for _, fi := range c.V.DB.FieldInvs {
		if fi.Field == fname && (fi.Type == tn || strings.HasSuffix(tn, "."+fi.Type)) {
			return fi
		}
	}
	return nil
}

func (c *FnCtx) assumeFieldInv(x *ssa.UnOp, l *Loc, v Val) {
	fi := c.fieldInvFor(l, x.X)
	if fi == nil {
		return
	}
	if fa, ok := x.X.(*ssa.FieldAddr); ok {
		for _, pi := range c.pendingInv {
			if pi.alloc == fa.X && pi.field == fa.Field {
				return // object under construction: the invariant is re-established before its scope ends (checked there)
			}
		}
	}
	env := &SEnv{c: c, st: c.cur, old: c.entry, vars: map[string]Val{"v": v}, bound: map[string]bool{}}
	c.assume(c.curItems, env.trAssume(fi.E))
	c.note("field invariant " + fi.Type + "." + fi.Field + ": " + fi.Text)
}

func (c *FnCtx) checkFieldInv(x *ssa.Store, l *Loc, v Val) {
	fi := c.fieldInvFor(l, x.Addr)
	if fi == nil {
		return
	}
	fa := x.Addr.(*ssa.FieldAddr)
	if !c.V.ModPkgs[pkgOfType(derefType(fa.X.Type()))] {
		return
	}
	// make-then-fill on an object allocated here (not yet published): the invariant of the field is
	// checked where control leaves the scope of the allocation (and at returns inside it)
	if al, ok := fa.X.(*ssa.Alloc); ok && al.Heap {
		if _, isMake := x.Val.(*ssa.MakeSlice); isMake {
			c.pendingInv = append(c.pendingInv, pendInv{al, fa.Field, fi, l})
			return
		}
	}
	env := &SEnv{c: c, st: c.cur, old: c.entry, vars: map[string]Val{"v": v}, bound: map[string]bool{}}
	ob := c.assert(c.curItems, "fieldinv", "fieldinv", fi.Type+"."+fi.Field, env.trGoal(fi.E), x, nil, true)
	ob.Text = fi.Text
}

func pkgOfType(t types.Type) *types.Package {
	if n, ok := t.(*types.Named); ok && n.Obj() != nil {
		return n.Obj().Pkg()
	}
	return nil
}

// assertClosureRequires: a closure handed to a callee may be invoked by it; its
// preconditions (over captured variables) must hold at the hand-over, and the closure
// re-establishes them on every return (checked in ret), so they hold at every invocation.
func (c *FnCtx) assertClosureRequires(mc *ssa.MakeClosure, in ssa.Instruction) {
	cf := mc.Fn.(*ssa.Function)
	short := strings.Replace(c.V.FuncKey[cf], ":", ".", 1)
	c.closureRequiresPol(mc, -1, func(r *Clause, f string) {
		ob := c.assert(c.curItems, "requires", fmt.Sprintf("requires@%s#%d", short, r.Ord), "", f, in, r.Tags, len(r.Tags) == 0)
		ob.Text = r.Text
	})
}

// isCapturedCell: binding b is the address of a captured variable (Alloc or an outer FreeVar).
func isCapturedCell(b ssa.Value) bool {
	switch b.(type) {
	case *ssa.Alloc, *ssa.FreeVar:
		return true
	}
	return false
}

// checkAllocFieldInvs: a freshly allocated module struct must have every field that carries a
// field invariant initialised in the same basic block (composite-literal pattern); otherwise the
// zero value must satisfy the invariant.
func (c *FnCtx) checkAllocFieldInvs(x *ssa.Alloc, ref string) {
	pt := derefType(x.Type())
	st, ok := pt.Underlying().(*types.Struct)
	if !ok || !c.V.ModPkgs[pkgOfType(pt)] {
		return
	}
	tn := tstr(pt)
	for i := 0; i < st.NumFields(); i++ {
		fname := st.Field(i).Name()
		var fi *FieldInv
		for _, cand := range c.V.DB.FieldInvs {
			if cand.Field == fname && (cand.Type == tn || strings.HasSuffix(tn, "."+cand.Type)) {
				fi = cand
			}
		}
		if fi == nil {
			continue
		}
		initialised := false
		for _, in := range x.Block().Instrs {
			if stt, ok := in.(*ssa.Store); ok {
				if fa, ok := stt.Addr.(*ssa.FieldAddr); ok && fa.X == ssa.Value(x) && fa.Field == i {
					initialised = true
				}
			}
		}
		if initialised {
			continue
		}
		zero := Val{T: c.zeroOf(st.Field(i).Type()), S: c.sortOf(st.Field(i).Type()), GT: st.Field(i).Type()}
		env := &SEnv{c: c, st: c.cur, old: c.entry, vars: map[string]Val{"v": zero}, bound: map[string]bool{}}
		ob := c.assert(c.curItems, "fieldinv", "fieldinv", fi.Type+"."+fi.Field+" (zero value at allocation)", env.trGoal(fi.E), x, nil, true)
		ob.Text = fi.Text
	}
}

// havocAll: an unknown callback ran: every heap array known to this VC becomes arbitrary.
func (c *FnCtx) havocAll(why string) {
	st := c.cur
	for n := range arrReg {
		c.ensureArr(n)
	}
	for n, srt := range c.arrSorts {
		st.arr[n] = c.freshConst(n+"@"+why, srt)
	}
	na := c.freshConst("alloc@"+why, SInt)
	c.assume(c.curItems, sx("<=", st.alloc, na))
	st.alloc = na
	c.note("a `callsback` parameter was invoked: all modelled heap arrays are havocked at that point")
}

// instantiateClosure assumes the postcondition of the function behind closure mc for one
// application (result := the application term), in state st.
func (c *FnCtx) instantiateClosure(mc *ssa.MakeClosure, ar applyRec, st *State) {
	cf := mc.Fn.(*ssa.Function)
	target := cf
	bound := strings.HasSuffix(cf.Name(), "$bound")
	if bound {
		if obj, ok := cf.Object().(*types.Func); ok {
			if m := c.V.Prog.FuncValue(obj); m != nil {
				target = m
			}
		}
	}
	con := c.V.contractOf(target)
	if con == nil || len(con.Ensures) == 0 {
		return
	}
	env := &SEnv{c: c, st: st, old: st, vars: map[string]Val{}, bound: map[string]bool{}}
	if bound {
		// parameters of the method: receiver = binding 0, then the call arguments
		if len(target.Params) != 1+len(ar.Args) || len(mc.Bindings) != 1 {
			return
		}
		env.vars[target.Params[0].Name()] = c.val(mc.Bindings[0])
		for i, a := range ar.Args {
			env.vars[target.Params[1+i].Name()] = a
		}
	} else {
		for i, b := range mc.Bindings {
			fv := cf.FreeVars[i]
			bv := c.val(b)
			if pt := derefType(fv.Type()); pt != nil {
				env.vars[fv.Name()] = c.loadLoc(st, c.ptrLoc(bv.T, pt, false))
			} else {
				env.vars[fv.Name()] = bv
			}
		}
		for i, a := range ar.Args {
			if i < len(cf.Params) {
				env.vars[cf.Params[i].Name()] = a
			}
		}
	}
	sig := target.Signature
	env.results = []Val{{T: ar.Term, S: ar.S, GT: sig.Results().At(0).Type()}}
	for _, r := range con.Requires {
		// the linked function's preconditions must hold for the assumption to be justified
		ok := true
		var f string
		func() {
			defer func() {
				if rec := recover(); rec != nil {
					ok = false
				}
			}()
			f = env.trGoal(r.E)
		}()
		if ok {
			c.assert(c.curItems, "requires", "requires@closure-link", target.Name(), f, nil, nil, true)
		}
	}
	for _, e := range con.Ensures {
		f := env.trAssume(e.E)
		for _, ft := range env.facts {
			c.assume(c.curItems, ft)
		}
		env.facts = nil
		c.assume(c.curItems, f)
	}
	c.note("closure link: " + target.Name() + " is assumed side-effect free and its postcondition is used for the application of the closure")
}

// frameCheck: a function with a declared `modifies` clause must not change anything else.
//
//	(a) every heap array in its syntactic modification set must be named by the clause;
//	(b) for a location NAME[idx] / x.f the rest of the array is unchanged at every return.
func (c *FnCtx) frameCheck(x *ssa.Return) {
	con := c.con
	if con == nil || !con.HasMod {
		return
	}
	declared := c.declaredMods()
	names := map[string]bool{}
	for n := range c.V.ModSets[c.fn] {
		if n != "*" {
			names[n] = true
		}
	}
	for n := range declared {
		names[n] = true
	}
	for n := range names {
		if !c.ensureArr(n) {
			continue
		}
		cur, old := c.arrIn(c.cur, n), c.arrIn(c.entry, n)
		if cur == old {
			continue
		}
		f, ok := c.frameFormula(n, declared[n], c.cur)
		if !ok {
			continue // declared as a whole array
		}
		ob := c.assert(c.curItems, "frame", "frame:"+n, "", f, x, nil, true)
		ob.Text = "outside the locations listed in the modifies clause, pre-existing entries of " + n + " are unchanged"
	}
}

// frameFormula: "outside the declared locations, array n is as at function entry" in state st.
func (c *FnCtx) frameFormula(n string, ms []Expr, st *State) (string, bool) {
	if !strings.HasPrefix(string(c.arrSorts[n]), "(Array Int ") {
		return "", false
	}
	var idxs []string
	env := c.specEnvFor(c.entry, c.entry, nil)
	for _, m := range ms {
		switch e := m.(type) {
		case *EIdent:
			return "", false
		case *EIndex:
			idxs = append(idxs, env.tr(e.I).T)
		case *ESel:
			idxs = append(idxs, env.tr(e.X).T)
		case *ECall:
			id, ok := e.Fun.(*EIdent)
			if !ok {
				return "", false
			}
			v := env.tr(e.Args[0])
			switch id.Name {
			case "elems":
				idxs = append(idxs, sx("sref", v.T))
			case "mapof":
				idxs = append(idxs, v.T)
			default:
				return "", false
			}
		default:
			return "", false
		}
	}
	var neq []string
	for _, ix := range idxs {
		neq = append(neq, sNot(sEq("fr_r", ix)))
	}
	if _, isGhost := c.V.DB.Ghosts[n]; !isGhost || n == "TMD" || n == "TMV" || n == "OUTLEN" || n == "OUTEV" {
		// arrays indexed by references: objects allocated during the call are outside the frame
		neq = append(neq, sx("<", "fr_r", c.entry.alloc))
	}
	cur, old := c.arrIn(st, n), c.arrIn(c.entry, n)
	return fmt.Sprintf("(forall ((fr_r Int)) %s)", sImp(sAnd(neq...), sEq(sSel(cur, "fr_r"), sSel(old, "fr_r")))), true
}

// declaredMods groups the modifies clause of the function under verification by heap array.
func (c *FnCtx) declaredMods() map[string][]Expr {
	declared := map[string][]Expr{}
	if c.con == nil || !c.con.HasMod {
		return declared
	}
	for _, m := range c.con.Modifies {
		for _, n := range c.V.modExprArrays(m, c.fn) {
			declared[n] = append(declared[n], m)
		}
	}
	return declared
}

type pendInv struct {
	alloc ssa.Value
	field int
	fi    *FieldInv
	loc   *Loc
}

// pendingInvFormula evaluates the invariant of a field of an object under construction on the field's
// current value.
func (c *FnCtx) pendingInvFormula(st *State, pi pendInv) string {
	v := c.loadLoc(st, pi.loc)
	env := &SEnv{c: c, st: st, old: c.entry, vars: map[string]Val{"v": v}, bound: map[string]bool{}}
	return env.trGoal(pi.fi.E)
}
