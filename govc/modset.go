package main

import (
	"fmt"
	"go/types"
	"sort"
	"strings"

	"golang.org/x/tools/go/ssa"
)

func tstr(t types.Type) string {
	return types.TypeString(t, func(p *types.Package) string { return p.Name() })
}

// arrReg remembers how to declare a heap array from its name (the name is derived from Go types).
var arrReg = map[string]func(c *FnCtx){}

func fieldArrName(st types.Type, idx int) string {
	s := st.Underlying().(*types.Struct)
	n := "F_" + mangle(tstr(st)) + "_" + s.Field(idx).Name()
	if _, ok := arrReg[n]; !ok {
		arrReg[n] = func(c *FnCtx) { c.fieldArr(st, idx) }
	}
	return n
}
func cellArrName(t types.Type) string {
	n := "C_" + mangle(tstr(t))
	if _, ok := arrReg[n]; !ok {
		arrReg[n] = func(c *FnCtx) { c.cellArr(t) }
	}
	return n
}
func backArrName(elem types.Type) string {
	n := "A_" + mangle(tstr(elem))
	if _, ok := arrReg[n]; !ok {
		arrReg[n] = func(c *FnCtx) { c.backArr(elem) }
	}
	return n
}
func mapDomName(mt types.Type) string {
	n := "MD_" + mangle(tstr(mt.Underlying()))
	if _, ok := arrReg[n]; !ok {
		arrReg[n] = func(c *FnCtx) { c.mapArrs(mt) }
	}
	return n
}
func mapValName(mt types.Type) string {
	n := "MV_" + mangle(tstr(mt.Underlying()))
	if _, ok := arrReg[n]; !ok {
		arrReg[n] = func(c *FnCtx) { c.mapArrs(mt) }
	}
	return n
}

// ensureArr declares heap array name in this VC if it is not yet known.
func (c *FnCtx) ensureArr(name string) bool {
	if _, ok := c.arrSorts[name]; ok {
		return true
	}
	if _, _, ok := c.ghostArr(name); ok {
		return true
	}
	if f, ok := arrReg[name]; ok {
		f(c)
		_, ok2 := c.arrSorts[name]
		return ok2
	}
	return false
}

func derefType(t types.Type) types.Type {
	if p, ok := t.Underlying().(*types.Pointer); ok {
		return p.Elem()
	}
	return nil
}

// localBase reports whether address value a is derived (through FieldAddr /
// IndexAddr / Slice / append / phi chains) from an allocation instruction for which
// inScope returns true.
func localBase(a ssa.Value, inScope func(ssa.Instruction) bool) bool {
	return localBaseV(a, inScope, map[ssa.Value]bool{})
}

func localBaseV(a ssa.Value, inScope func(ssa.Instruction) bool, seen map[ssa.Value]bool) bool {
	for depth := 0; depth < 40; depth++ {
		if seen[a] {
			return true // a cycle through phis contributes nothing new
		}
		switch x := a.(type) {
		case *ssa.Alloc:
			return inScope(x)
		case *ssa.MakeSlice:
			return inScope(x)
		case *ssa.MakeMap:
			return inScope(x)
		case *ssa.FieldAddr:
			a = x.X
		case *ssa.IndexAddr:
			a = x.X
		case *ssa.Slice:
			a = x.X
		case *ssa.Const:
			return x.Value == nil // the nil slice: nothing to write through
		case *ssa.Call:
			// append(...) yields a fresh backing array in the model
			if b, ok := x.Call.Value.(*ssa.Builtin); ok && b.Name() == "append" {
				return inScope(x)
			}
			return false
		case *ssa.Phi:
			seen[a] = true
			for _, e := range x.Edges {
				if !localBaseV(e, inScope, seen) {
					return false
				}
			}
			return true
		default:
			return false
		}
	}
	return false
}

// storeTargets names the heap arrays a store through address a may change.
func storeTargets(a ssa.Value, out map[string]bool) {
	switch x := a.(type) {
	case *ssa.FieldAddr:
		st := derefType(x.X.Type())
		// a field inside a by-value nested struct: the outermost object field array changes
		if inner, ok := x.X.(*ssa.FieldAddr); ok {
			if _, isStruct := derefType(inner.Type()).Underlying().(*types.Struct); isStruct {
				storeTargets(inner, out)
				return
			}
		}
		if inner, ok := x.X.(*ssa.IndexAddr); ok {
			storeTargets(inner, out)
			return
		}
		out[fieldArrName(st, x.Field)] = true
	case *ssa.IndexAddr:
		switch t := x.X.Type().Underlying().(type) {
		case *types.Slice:
			out[backArrName(t.Elem())] = true
		case *types.Pointer:
			if at, ok := t.Elem().Underlying().(*types.Array); ok {
				out[backArrName(at.Elem())] = true
			}
		}
	default:
		pt := derefType(a.Type())
		if pt == nil {
			return
		}
		switch u := pt.Underlying().(type) {
		case *types.Struct:
			for i := 0; i < u.NumFields(); i++ {
				out[fieldArrName(pt, i)] = true
			}
		case *types.Array:
			out[backArrName(u.Elem())] = true
		default:
			out[cellArrName(pt)] = true
		}
	}
}

// instrMods adds to out the arrays instruction in may modify, not counting
// stores to objects allocated by instructions accepted by inScope.
func (v *Verifier) instrMods(in ssa.Instruction, inScope func(ssa.Instruction) bool, out map[string]bool) {
	switch x := in.(type) {
	case *ssa.Store:
		if localBase(x.Addr, inScope) {
			return
		}
		if _, isGlobal := x.Addr.(*ssa.Global); isGlobal {
			return
		}
		storeTargets(x.Addr, out)
	case *ssa.MapUpdate:
		if localBase(x.Map, inScope) {
			return
		}
		out[mapDomName(x.Map.Type())] = true
		out[mapValName(x.Map.Type())] = true
	case ssa.CallInstruction:
		v.callMods(x.Common(), out)
		// a call through (or a library call that receives) a `callsback` parameter has arbitrary effects
		if f := in.Parent(); f != nil {
			if con := v.contractOf(f); con != nil && len(con.Callsback) > 0 {
				cc := x.Common()
				if pv, ok := cc.Value.(*ssa.Parameter); ok && con.Callsback[pv.Name()] {
					out["*"] = true
				}
				for _, a := range cc.Args {
					if pv, ok := a.(*ssa.Parameter); ok && con.Callsback[pv.Name()] {
						out["*"] = true
					}
				}
			}
		}
	}
}

func (v *Verifier) callMods(c *ssa.CallCommon, out map[string]bool) {
	addFn := func(f *ssa.Function) {
		if con := v.contractOf(f); con != nil && con.HasMod {
			for _, m := range con.Modifies {
				for _, n := range v.modExprArrays(m, f) {
					out[n] = true
				}
			}
			return
		}
		for n := range v.ModSets[f] {
			out[n] = true
		}
	}
	if c.IsInvoke() {
		key := invokeKey(c)
		if con := v.DB.Contracts[key]; con != nil {
			for _, m := range con.Modifies {
				for _, n := range v.modExprArrays(m, nil) {
					out[n] = true
				}
			}
		}
		return
	}
	if b, ok := c.Value.(*ssa.Builtin); ok {
		if b.Name() == "delete" && len(c.Args) > 0 {
			out[mapDomName(c.Args[0].Type())] = true
			out[mapValName(c.Args[0].Type())] = true
		}
		if b.Name() == "copy" && len(c.Args) > 0 {
			if st, ok := c.Args[0].Type().Underlying().(*types.Slice); ok {
				out[backArrName(st.Elem())] = true
			}
		}
		return
	}
	if f := c.StaticCallee(); f != nil {
		hadStar := out["*"]
		addFn(f)
		// "*" in the callee's set stands for its `callsback` parameters: when each of them is bound
		// here to a closure (or nil), the closures' own sets (added below) are the effect
		if !hadStar && out["*"] {
			if con := v.contractOf(f); con != nil && len(con.Callsback) > 0 {
				known := true
				for ai, a := range c.Args {
					if ai < len(f.Params) && con.Callsback[f.Params[ai].Name()] {
						if asClosure(a) == nil {
							if k, isConst := a.(*ssa.Const); !isConst || k.Value != nil {
								if fn, isFn := a.(*ssa.Function); !isFn || !v.inModule(fn) {
									known = false
								}
							}
						}
					}
				}
				if known {
					delete(out, "*")
				}
			}
		}
	}
	// closures handed to the callee (callbacks run during the call)
	for _, a := range c.Args {
		if mc := asClosure(a); mc != nil {
			addFn(mc.Fn.(*ssa.Function))
		}
		if f, ok := a.(*ssa.Function); ok && v.inModule(f) {
			addFn(f)
		}
	}
	if mc, ok := c.Value.(*ssa.MakeClosure); ok {
		addFn(mc.Fn.(*ssa.Function))
	}
}

// modExprArrays maps a modifies-location expression to heap array names.
func (v *Verifier) modExprArrays(e Expr, f *ssa.Function) []string {
	switch x := e.(type) {
	case *EIdent:
		return []string{x.Name}
	case *EIndex:
		return v.modExprArrays(x.X, f)
	case *ESel:
		// x.f : needs the static type of x; resolved by name among params
		if f != nil {
			if t := v.specStaticType(x.X, f); t != nil {
				if pt := derefType(t); pt != nil {
					t = pt
				}
				if st, ok := t.Underlying().(*types.Struct); ok {
					for i := 0; i < st.NumFields(); i++ {
						if st.Field(i).Name() == x.Name {
							return []string{fieldArrName(t, i)}
						}
					}
				}
			}
		}
	case *ECall:
		// mapof(x.f) => MD_/MV_ of the map type of x.f
		if id, ok := x.Fun.(*EIdent); ok && id.Name == "mapof" && len(x.Args) == 1 && f != nil {
			if t := v.specStaticType(x.Args[0], f); t != nil {
				return []string{mapDomName(t), mapValName(t)}
			}
		}
		if id, ok := x.Fun.(*EIdent); ok && id.Name == "elems" && len(x.Args) == 1 && f != nil {
			if t := v.specStaticType(x.Args[0], f); t != nil {
				if st, ok := t.Underlying().(*types.Slice); ok {
					return []string{backArrName(st.Elem())}
				}
			}
		}
	}
	return nil
}

// specStaticType computes the Go type of a simple path expression over parameters.
func (v *Verifier) specStaticType(e Expr, f *ssa.Function) types.Type {
	switch x := e.(type) {
	case *EIdent:
		for _, p := range f.Params {
			if p.Name() == x.Name {
				return p.Type()
			}
		}
		for _, p := range f.FreeVars {
			if p.Name() == x.Name {
				return p.Type()
			}
		}
	case *ESel:
		t := v.specStaticType(x.X, f)
		if t == nil {
			return nil
		}
		if pt := derefType(t); pt != nil {
			t = pt
		}
		if st, ok := t.Underlying().(*types.Struct); ok {
			for i := 0; i < st.NumFields(); i++ {
				if st.Field(i).Name() == x.Name {
					return st.Field(i).Type()
				}
			}
		}
	case *EUnary:
		if x.Op == "&" {
			if t := v.specStaticType(x.X, f); t != nil {
				return types.NewPointer(t)
			}
		}
	}
	return nil
}

func invokeKey(c *ssa.CallCommon) string {
	t := c.Value.Type()
	name := types.TypeString(t, nil)
	return name + "." + c.Method.Name()
}

// computeModSets: least fixpoint of the syntactic modification sets of all
// module functions (whole-array granularity).
func (v *Verifier) computeModSets() {
	for _, f := range v.AllFns {
		v.ModSets[f] = map[string]bool{}
	}
	inFn := func(ssa.Instruction) bool { return true }
	for changed := true; changed; {
		changed = false
		for _, f := range v.AllFns {
			ms := v.ModSets[f]
			n := len(ms)
			for _, b := range f.Blocks {
				for _, in := range b.Instrs {
					v.instrMods(in, inFn, ms)
				}
			}
			if len(ms) != n {
				changed = true
			}
		}
	}
}

// asClosure looks through type changes for the closure a value denotes.
func asClosure(a ssa.Value) *ssa.MakeClosure {
	for i := 0; i < 5; i++ {
		switch x := a.(type) {
		case *ssa.MakeClosure:
			return x
		case *ssa.ChangeType:
			a = x.X
		case *ssa.MakeInterface:
			a = x.X
		default:
			return nil
		}
	}
	return nil
}

// ---------- C16: frame of an iteration over a map ----------

// hasMapRange reports whether f iterates over a map.
func hasMapRange(f *ssa.Function) bool {
	for _, b := range f.Blocks {
		for _, in := range b.Instrs {
			if n, ok := in.(*ssa.Next); ok && !n.IsString {
				return true
			}
		}
	}
	return false
}

// mapOrderObligation emits, for the loop driven by the map iterator step x, the frame obligation
// "the loop modifies nothing outside the objects this function created itself": Go leaves the order
// of a map iteration unspecified, so an effect on longer-lived state (a store through a parameter
// or receiver, a call whose contract or inferred frame modifies something) would make that state
// depend on the iteration order.  The frame is computed from the callees' modifies clauses (which are
// obligations of their own) exactly as for loop cutting; the obligation is the constant true/false.
func (c *FnCtx) mapOrderObligation(x *ssa.Next) {
	if c.prop != "C16" {
		return
	}
	l := c.loops[x.Block()]
	if l == nil {
		return
	}
	fn := c.fn
	own := func(in ssa.Instruction) bool { return in.Parent() == fn }
	mods := map[string]bool{}
	var culprit ssa.Instruction
	for _, b := range fn.Blocks {
		if !l.Blocks[b] {
			continue
		}
		for _, in := range b.Instrs {
			if mu, ok := in.(*ssa.MapUpdate); ok {
				if _, isConst := mu.Value.(*ssa.Const); isConst {
					continue // inserting a constant under a key (building a set) commutes
				}
			}
			n := len(mods)
			c.V.instrMods(in, own, mods)
			if len(mods) > n && culprit == nil {
				culprit = in
			}
		}
	}
	var names []string
	for m := range mods {
		names = append(names, m)
	}
	sort.Strings(names)
	f := "true"
	text := "iteration over a map modifies nothing outside this function's own objects"
	var at ssa.Instruction = x
	if len(names) > 0 {
		f = "false"
		text += "; modified: " + strings.Join(names, ", ")
		at = culprit
	}
	ob := c.assert(c.curItems, "maporder", fmt.Sprintf("loop%d/maporder", l.Ord), "", f, at, []string{"C16"}, false)
	ob.Text = text
	ob.Static = f
}
