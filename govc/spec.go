package main

// Contract language: lexer, expression parser, contract-file parser.
//
// Contract files are comment-only Go files (build tag "verif") in /repo and the
// trusted library specification /verif/specs/lib.spec.  Every line that starts
// with "//@" (or, in lib.spec, every non-blank line not starting with '#') is
// contract text.  A block starts with a header line
//
//	func <name>            e.g.  func funcOutput
//	func (*T).<name>       e.g.  func (*injectorGen).funcProviderCall
//	func <name>$<k>        closures, go/ssa naming
//	lib <full ssa name>    e.g.  lib go/types.Identical   (lib.spec only)
//	define f(x T, y U) = <expr>
//	ufun f(sorts...) sort
//	ghost NAME sort
//	fieldinv T.f <expr over "v" and "this">   (type invariant on a field; assumed on load, checked on store)
//
// and continues with clause lines:
//
//	requires [Cxx,...] <expr>
//	ensures  [Cxx,...] <expr>
//	loop <k|label> invariant [Cxx] <expr>
//	loop <k|label> modifies <array names>
//	modifies <loc>, <loc> ...      (x.f | NAME[x] | NAME)
//	pure                           (result is a function of arguments; no heap effect)
//	nullable <param> ...
//	trusted                        (body not verified; lib entries are always trusted)
//	schema iterate|inspect|apply ...

import (
	"fmt"
	"os"
	"strconv"
	"strings"
	"unicode"
)

// ---------- expression AST ----------

type Expr interface{}

type (
	EIdent struct{ Name string }
	EInt   struct{ V int64 }
	EStr   struct{ V string }
	EBool  struct{ V bool }
	ENil   struct{}
	EUnary struct {
		Op string
		X  Expr
	}
	EBinary struct {
		Op   string
		X, Y Expr
	}
	ESel struct {
		X    Expr
		Name string
	}
	EIndex struct {
		X, I Expr
	}
	EUpdate struct {
		X, I, V Expr
	}
	ECall struct {
		Fun  Expr
		Args []Expr
	}
	EQuant struct {
		Forall bool
		Vars   []QVar
		Body   Expr
	}
	EOld struct{ X Expr }
	EIs  struct {
		X    Expr
		Type string
	}
	ECast struct {
		X    Expr
		Type string
	}
	EIte struct{ C, A, B Expr }
)

type QVar struct {
	Name string
	Type string // "" = int
}

// ---------- lexer ----------

type tok struct {
	kind string // id, int, str, op, eof
	s    string
}

func lexSpec(src string) ([]tok, error) {
	var out []tok
	i := 0
	for i < len(src) {
		c := src[i]
		switch {
		case c == ' ' || c == '\t' || c == '\n' || c == '\r':
			i++
		case c == '/' && i+1 < len(src) && src[i+1] == '/':
			i = len(src) // trailing comment
		case unicode.IsLetter(rune(c)) || c == '_' || c == '$':
			j := i
			for j < len(src) && (unicode.IsLetter(rune(src[j])) || unicode.IsDigit(rune(src[j])) || src[j] == '_' || src[j] == '$') {
				j++
			}
			out = append(out, tok{"id", src[i:j]})
			i = j
		case unicode.IsDigit(rune(c)):
			j := i
			for j < len(src) && unicode.IsDigit(rune(src[j])) {
				j++
			}
			out = append(out, tok{"int", src[i:j]})
			i = j
		case c == '"':
			j := i + 1
			for j < len(src) && src[j] != '"' {
				if src[j] == '\\' {
					j++
				}
				j++
			}
			if j >= len(src) {
				return nil, fmt.Errorf("unterminated string in %q", src)
			}
			s, err := strconv.Unquote(src[i : j+1])
			if err != nil {
				return nil, fmt.Errorf("bad string %s: %v", src[i:j+1], err)
			}
			out = append(out, tok{"str", s})
			i = j + 1
		case c == '`':
			j := i + 1
			for j < len(src) && src[j] != '`' {
				j++
			}
			out = append(out, tok{"str", src[i+1 : j]})
			i = j + 1
		default:
			ops := []string{"<==>", "==>", "::", ":=", "&&", "||", "==", "!=", "<=", ">=", "(", ")", "[", "]", "{", "}", ",", ".", "<", ">", "+", "-", "*", "/", "%", "!", ":", "?", "&"}
			matched := false
			for _, op := range ops {
				if strings.HasPrefix(src[i:], op) {
					out = append(out, tok{"op", op})
					i += len(op)
					matched = true
					break
				}
			}
			if !matched {
				return nil, fmt.Errorf("unexpected character %q in %q", c, src)
			}
		}
	}
	out = append(out, tok{"eof", ""})
	return out, nil
}

// ---------- parser ----------

type sparser struct {
	toks []tok
	pos  int
	src  string
}

func (p *sparser) peek() tok { return p.toks[p.pos] }
func (p *sparser) next() tok { t := p.toks[p.pos]; p.pos++; return t }
func (p *sparser) isOp(s string) bool {
	t := p.peek()
	return t.kind == "op" && t.s == s
}
func (p *sparser) isID(s string) bool {
	t := p.peek()
	return t.kind == "id" && t.s == s
}
func (p *sparser) expectOp(s string) {
	if !p.isOp(s) {
		panic(fmt.Sprintf("spec parse: expected %q at token %d (%q) in %q", s, p.pos, p.peek().s, p.src))
	}
	p.pos++
}

func parseSpecExpr(src string) (e Expr, err error) {
	toks, err := lexSpec(src)
	if err != nil {
		return nil, err
	}
	p := &sparser{toks: toks, src: src}
	defer func() {
		if r := recover(); r != nil {
			err = fmt.Errorf("%v", r)
		}
	}()
	e = p.parseExpr()
	if p.peek().kind != "eof" {
		return nil, fmt.Errorf("spec parse: trailing tokens at %q in %q", p.peek().s, src)
	}
	return e, nil
}

func (p *sparser) parseExpr() Expr { return p.parseIff() }

func (p *sparser) parseIff() Expr {
	x := p.parseImp()
	for p.isOp("<==>") {
		p.next()
		y := p.parseImp()
		x = &EBinary{"<==>", x, y}
	}
	return x
}

func (p *sparser) parseImp() Expr {
	x := p.parseOr()
	if p.isOp("==>") {
		p.next()
		y := p.parseImp() // right assoc
		return &EBinary{"==>", x, y}
	}
	if p.isOp("?") {
		p.next()
		a := p.parseImp()
		p.expectOp(":")
		b := p.parseImp()
		return &EIte{x, a, b}
	}
	return x
}

func (p *sparser) parseOr() Expr {
	x := p.parseAnd()
	for p.isOp("||") {
		p.next()
		y := p.parseAnd()
		x = &EBinary{"||", x, y}
	}
	return x
}

func (p *sparser) parseAnd() Expr {
	x := p.parseCmp()
	for p.isOp("&&") {
		p.next()
		y := p.parseCmp()
		x = &EBinary{"&&", x, y}
	}
	return x
}

func (p *sparser) parseCmp() Expr {
	x := p.parseAdd()
	for {
		t := p.peek()
		if t.kind == "op" && (t.s == "==" || t.s == "!=" || t.s == "<" || t.s == "<=" || t.s == ">" || t.s == ">=") {
			p.next()
			y := p.parseAdd()
			x = &EBinary{t.s, x, y}
			continue
		}
		if t.kind == "id" && t.s == "is" {
			p.next()
			ty := p.parseTypeName()
			x = &EIs{x, ty}
			continue
		}
		return x
	}
}

func (p *sparser) parseAdd() Expr {
	x := p.parseMul()
	for p.isOp("+") || p.isOp("-") {
		op := p.next().s
		y := p.parseMul()
		x = &EBinary{op, x, y}
	}
	return x
}

func (p *sparser) parseMul() Expr {
	x := p.parseUnary()
	for p.isOp("*") || p.isOp("/") || p.isOp("%") {
		op := p.next().s
		y := p.parseUnary()
		x = &EBinary{op, x, y}
	}
	return x
}

func (p *sparser) parseUnary() Expr {
	if p.isOp("!") {
		p.next()
		return &EUnary{"!", p.parseUnary()}
	}
	if p.isOp("-") {
		p.next()
		return &EUnary{"-", p.parseUnary()}
	}
	if p.isOp("&") {
		p.next()
		return &EUnary{"&", p.parseUnary()}
	}
	if p.isID("forall") || p.isID("exists") {
		fa := p.next().s == "forall"
		var vars []QVar
		for {
			t := p.next()
			if t.kind != "id" {
				panic(fmt.Sprintf("spec parse: quantifier variable expected in %q", p.src))
			}
			v := QVar{Name: t.s}
			if !p.isOp(",") && !p.isOp("::") {
				v.Type = p.parseTypeName()
			}
			vars = append(vars, v)
			if p.isOp(",") {
				p.next()
				continue
			}
			break
		}
		p.expectOp("::")
		body := p.parseExpr()
		return &EQuant{fa, vars, body}
	}
	return p.parsePostfix()
}

// parseTypeName parses a (simple) Go type: [*|[]]* (pkg.)?Name
func (p *sparser) parseTypeName() string {
	var sb strings.Builder
	for {
		if p.isOp("*") {
			p.next()
			sb.WriteString("*")
			continue
		}
		if p.isOp("[") {
			p.next()
			p.expectOp("]")
			sb.WriteString("[]")
			continue
		}
		break
	}
	t := p.next()
	if t.kind != "id" {
		panic(fmt.Sprintf("spec parse: type name expected at %q in %q", t.s, p.src))
	}
	sb.WriteString(t.s)
	if p.isOp(".") && p.toks[p.pos+1].kind == "id" {
		p.next()
		sb.WriteString(".")
		sb.WriteString(p.next().s)
	}
	return sb.String()
}

func (p *sparser) parsePostfix() Expr {
	x := p.parsePrimary()
	for {
		switch {
		case p.isOp("."):
			p.next()
			if p.isOp("(") { // type assertion x.(T)
				p.next()
				ty := p.parseTypeName()
				p.expectOp(")")
				x = &ECast{x, ty}
				continue
			}
			t := p.next()
			if t.kind != "id" && t.kind != "int" {
				panic(fmt.Sprintf("spec parse: selector expected in %q", p.src))
			}
			x = &ESel{x, t.s}
		case p.isOp("["):
			p.next()
			i := p.parseExpr()
			if p.isOp(":=") {
				p.next()
				v := p.parseExpr()
				p.expectOp("]")
				x = &EUpdate{x, i, v}
			} else {
				p.expectOp("]")
				x = &EIndex{x, i}
			}
		case p.isOp("("):
			p.next()
			var args []Expr
			for !p.isOp(")") {
				args = append(args, p.parseExpr())
				if p.isOp(",") {
					p.next()
				}
			}
			p.expectOp(")")
			x = &ECall{x, args}
		default:
			return x
		}
	}
}

func (p *sparser) parsePrimary() Expr {
	t := p.next()
	switch t.kind {
	case "int":
		v, _ := strconv.ParseInt(t.s, 10, 64)
		return &EInt{v}
	case "str":
		return &EStr{t.s}
	case "id":
		switch t.s {
		case "true":
			return &EBool{true}
		case "false":
			return &EBool{false}
		case "nil":
			return &ENil{}
		case "old":
			p.expectOp("(")
			x := p.parseExpr()
			p.expectOp(")")
			return &EOld{x}
		}
		return &EIdent{t.s}
	case "op":
		if t.s == "(" {
			x := p.parseExpr()
			p.expectOp(")")
			return x
		}
	}
	panic(fmt.Sprintf("spec parse: unexpected token %q in %q", t.s, p.src))
}

// ---------- contract blocks ----------

type Clause struct {
	AllReturns bool
	Group     string
	Kind      string   // requires ensures invariant
	Tags      []string // property ids; empty = always
	Text      string
	E         Expr
	Loop      string                                      // for invariants: loop key (ordinal or label)
	Ord       int                                         // ordinal within kind (1-based) for naming
	Where     string                                      // file:line
	Auto      func(get func(v interface{}) string) string // inferred invariant over SSA values
	AutoState func(st *State) string                      // inferred invariant over the heap state
}

type Define struct {
	Name   string
	Params []QVar
	Body   Expr
}

type UFun struct {
	Name string
	Args []string // sort names: int bool iface slice ref str
	Res  string
}

type FieldInv struct {
	Type  string // "Pkg.Type" or "Type"
	Field string
	E     Expr
	Text  string
}

type Contract struct {
	Key       string // function key as written
	Lib       bool
	Requires  []*Clause
	Ensures   []*Clause
	Invs      map[string][]*Clause // by loop key
	LoopMods  map[string][]string
	LoopDecr  map[string]Expr
	Modifies  []Expr
	HasMod    bool
	Pure      bool
	Trusted   bool
	Nullable  map[string]bool
	Callsback map[string]bool // function-typed parameters the function may invoke (with arbitrary effects of the closure)
	Schema    []string
	Props     map[string]bool // all tags mentioned
	Where     string
	LEnsures  []*Clause
	Frames    []*Clause // two-state (old/new) transitive properties of a callback, assumed across the library call
	Each      []*Clause // "each q :: P(q)": established for tid(key) by every callback invocation, stable
	EachVar   []string
	Fresh     bool                 // result is a fresh allocation (lib)
	AtCall    map[string][]*Clause // "atcall f requires P": P holds at every static call to f in this function
	AtStore   map[string][]*Clause // "atstore T.f requires P": P holds at every store to field f of a T in this function
	AtNew     map[string][]*Clause // "atnew T requires P": P holds wherever this function allocates a T
	NoAlloc   bool
	Opaque    bool
	Terminate bool
}

type SpecDB struct {
	Contracts  map[string]*Contract
	Defines    map[string]*Define
	UFuns      map[string]*UFun
	Ghosts     map[string]string // name -> sort text
	FieldInvs  []*FieldInv
	GlobalInvs []*FieldInv // invariants of package-level variables (checked in the package initializer)
	NewInvs    []*FieldInv // facts about freshly allocated (zero) values of library types
	Axioms     []*Clause
	// statistics for the evidence
	NLibEntries, NAssume, NAxiom int
}

func newSpecDB() *SpecDB {
	return &SpecDB{Contracts: map[string]*Contract{}, Defines: map[string]*Define{}, UFuns: map[string]*UFun{}, Ghosts: map[string]string{}}
}

// extractSpecLines returns contract lines of a file. For .go files only lines
// starting with //@ count; for .spec files all lines not starting with '#'.
func extractSpecLines(path string) ([]string, []int, error) {
	data, err := os.ReadFile(path)
	if err != nil {
		return nil, nil, err
	}
	isGo := strings.HasSuffix(path, ".go")
	var lines []string
	var nums []int
	for i, ln := range strings.Split(string(data), "\n") {
		s := strings.TrimSpace(ln)
		if isGo {
			if !strings.HasPrefix(s, "//@") {
				continue
			}
			s = strings.TrimSpace(strings.TrimPrefix(s, "//@"))
		} else {
			if strings.HasPrefix(s, "#") {
				continue
			}
		}
		if s == "" {
			continue
		}
		// continuation lines start with "|"
		if strings.HasPrefix(s, "|") && len(lines) > 0 {
			lines[len(lines)-1] += " " + strings.TrimSpace(s[1:])
			continue
		}
		lines = append(lines, s)
		nums = append(nums, i+1)
	}
	return lines, nums, nil
}

func parseTags(s string) ([]string, string) {
	s = strings.TrimSpace(s)
	if strings.HasPrefix(s, "[") {
		j := strings.Index(s, "]")
		if j > 0 {
			inner := s[1:j]
			ok := true
			var tags []string
			for _, t := range strings.Split(inner, ",") {
				t = strings.TrimSpace(t)
				if len(t) < 3 || t[0] != 'C' {
					ok = false
				}
				tags = append(tags, t)
			}
			if ok {
				return tags, strings.TrimSpace(s[j+1:])
			}
		}
	}
	return nil, s
}

func (db *SpecDB) loadFile(path string, lib bool) error {
	lines, nums, err := extractSpecLines(path)
	if err != nil {
		return err
	}
	var cur *Contract
	for li, ln := range lines {
		where := fmt.Sprintf("%s:%d", path, nums[li])
		word, rest := splitWord(ln)
		fail := func(e error) error { return fmt.Errorf("%s: %v", where, e) }
		switch word {
		case "func", "lib":
			key := strings.TrimSpace(rest)
			cur = &Contract{Key: key, Lib: word == "lib", Invs: map[string][]*Clause{}, LoopMods: map[string][]string{}, LoopDecr: map[string]Expr{}, Nullable: map[string]bool{}, Callsback: map[string]bool{}, Props: map[string]bool{}, Where: where}
			if word == "lib" {
				cur.Trusted = true
				db.NLibEntries++
			}
			if _, dup := db.Contracts[key]; dup {
				return fail(fmt.Errorf("duplicate contract for %s", key))
			}
			db.Contracts[key] = cur
		case "define":
			// define name(x T, y U) = expr
			eq := strings.Index(rest, "=")
			// find the '=' after the closing paren
			cp := strings.Index(rest, ")")
			if cp < 0 {
				return fail(fmt.Errorf("bad define"))
			}
			eq = cp + strings.Index(rest[cp:], "=")
			head := strings.TrimSpace(rest[:cp])
			body := strings.TrimSpace(rest[eq+1:])
			op := strings.Index(head, "(")
			name := strings.TrimSpace(head[:op])
			var params []QVar
			for _, ps := range strings.Split(head[op+1:], ",") {
				ps = strings.TrimSpace(ps)
				if ps == "" {
					continue
				}
				w, ty := splitWord(ps)
				params = append(params, QVar{Name: w, Type: strings.TrimSpace(ty)})
			}
			e, err := parseSpecExpr(body)
			if err != nil {
				return fail(err)
			}
			db.Defines[name] = &Define{Name: name, Params: params, Body: e}
			cur = nil
		case "ufun":
			op := strings.Index(rest, "(")
			cp := strings.Index(rest, ")")
			name := strings.TrimSpace(rest[:op])
			var args []string
			for _, a := range strings.Split(rest[op+1:cp], ",") {
				a = strings.TrimSpace(a)
				if a != "" {
					args = append(args, a)
				}
			}
			db.UFuns[name] = &UFun{Name: name, Args: args, Res: strings.TrimSpace(rest[cp+1:])}
			cur = nil
		case "ghost":
			n, s := splitWord(rest)
			db.Ghosts[n] = strings.TrimSpace(s)
			cur = nil
		case "axiom":
			tags, txt := parseTags(rest)
			e, err := parseSpecExpr(txt)
			if err != nil {
				return fail(err)
			}
			db.Axioms = append(db.Axioms, &Clause{Kind: "axiom", Tags: tags, Text: txt, E: e, Where: where})
			db.NAxiom++
			cur = nil
		case "newinv":
			tn, txt := splitWord(rest)
			e, err := parseSpecExpr(txt)
			if err != nil {
				return fail(err)
			}
			db.NewInvs = append(db.NewInvs, &FieldInv{Type: tn, E: e, Text: txt})
			cur = nil
		case "globalinv":
			gn, txt := splitWord(rest)
			e, err := parseSpecExpr(txt)
			if err != nil {
				return fail(err)
			}
			db.GlobalInvs = append(db.GlobalInvs, &FieldInv{Type: "", Field: gn, E: e, Text: txt})
			cur = nil
		case "fieldinv":
			tf, txt := splitWord(rest)
			dot := strings.LastIndex(tf, ".")
			e, err := parseSpecExpr(txt)
			if err != nil {
				return fail(err)
			}
			db.FieldInvs = append(db.FieldInvs, &FieldInv{Type: tf[:dot], Field: tf[dot+1:], E: e, Text: txt})
			cur = nil
		default:
			if cur == nil {
				return fail(fmt.Errorf("clause %q outside a block", word))
			}
			switch word {
			case "lensures", "rensures":
				// "local ensures": like ensures, but may mention local variables; it is asserted at every
				// return at which all the variables it mentions are defined
				tags, txt := parseTags(rest)
				e, err := parseSpecExpr(txt)
				if err != nil {
					return fail(err)
				}
				// rensures: like lensures, but asserted at EVERY return: a local that is not defined on the
				// path to a return denotes an arbitrary value there
				c := &Clause{Kind: "lensures", Tags: tags, Text: txt, E: e, Where: where, Ord: len(cur.LEnsures) + 1, AllReturns: word == "rensures"}
				cur.LEnsures = append(cur.LEnsures, c)
				for _, t := range tags {
					cur.Props[t] = true
				}
			case "requires", "ensures":
				tags, txt := parseTags(rest)
				e, err := parseSpecExpr(txt)
				if err != nil {
					return fail(err)
				}
				c := &Clause{Kind: word, Tags: tags, Text: txt, E: e, Where: where}
				for _, t := range tags {
					cur.Props[t] = true
				}
				if word == "requires" {
					c.Ord = len(cur.Requires) + 1
					cur.Requires = append(cur.Requires, c)
				} else {
					c.Ord = len(cur.Ensures) + 1
					cur.Ensures = append(cur.Ensures, c)
				}
			case "loop":
				key, r2 := splitWord(rest)
				w2, r3 := splitWord(r2)
				switch w2 {
				case "invariant":
					tags, txt := parseTags(r3)
					e, err := parseSpecExpr(txt)
					if err != nil {
						return fail(err)
					}
					c := &Clause{Kind: "invariant", Tags: tags, Text: txt, E: e, Loop: key, Where: where}
					c.Ord = len(cur.Invs[key]) + 1
					cur.Invs[key] = append(cur.Invs[key], c)
					for _, t := range tags {
						cur.Props[t] = true
					}
				case "modifies":
					for _, a := range strings.Split(r3, ",") {
						cur.LoopMods[key] = append(cur.LoopMods[key], strings.TrimSpace(a))
					}
				case "decreases":
					e, err := parseSpecExpr(r3)
					if err != nil {
						return fail(err)
					}
					cur.LoopDecr[key] = e
				default:
					return fail(fmt.Errorf("unknown loop clause %q", w2))
				}
			case "modifies":
				cur.HasMod = true
				if strings.TrimSpace(rest) != "nothing" {
					for _, a := range splitTopLevel(rest) {
						e, err := parseSpecExpr(a)
						if err != nil {
							return fail(err)
						}
						cur.Modifies = append(cur.Modifies, e)
					}
				}
			case "frame":
				tags, txt := parseTags(rest)
				e, err := parseSpecExpr(txt)
				if err != nil {
					return fail(err)
				}
				cur.Frames = append(cur.Frames, &Clause{Kind: "frame", Tags: tags, Text: txt, E: e, Where: where, Ord: len(cur.Frames) + 1})
				for _, t := range tags {
					cur.Props[t] = true
				}
			case "each":
				tags, txt := parseTags(rest)
				i := strings.Index(txt, "::")
				if i < 0 {
					return fail(fmt.Errorf("each: expected 'q :: expr'"))
				}
				e, err := parseSpecExpr(strings.TrimSpace(txt[i+2:]))
				if err != nil {
					return fail(err)
				}
				c := &Clause{Kind: "each", Tags: tags, Text: txt, E: e, Where: where, Ord: len(cur.Each) + 1}
				cur.Each = append(cur.Each, c)
				cur.EachVar = append(cur.EachVar, strings.TrimSpace(txt[:i]))
				for _, t := range tags {
					cur.Props[t] = true
				}
			case "atcall":
				// atcall <callee name> requires [tags] expr : expr must hold at every static call to a function
				// of that name in this function
				tn, r2 := splitWord(rest)
				w2, r3 := splitWord(r2)
				if w2 != "requires" {
					return fail(fmt.Errorf("atcall: expected `atcall <callee> requires <expr>`"))
				}
				tags, txt := parseTags(r3)
				e, err := parseSpecExpr(txt)
				if err != nil {
					return fail(err)
				}
				if cur.AtCall == nil {
					cur.AtCall = map[string][]*Clause{}
				}
				c := &Clause{Kind: "atcall", Tags: tags, Text: txt, E: e, Where: where, Ord: len(cur.AtCall[tn]) + 1}
				cur.AtCall[tn] = append(cur.AtCall[tn], c)
				for _, t := range tags {
					cur.Props[t] = true
				}
			case "atstore":
				// atstore <Type>.<field> requires [tags] expr : expr must hold at every store to that field
				// in this function
				tn, r2 := splitWord(rest)
				w2, r3 := splitWord(r2)
				if w2 != "requires" {
					return fail(fmt.Errorf("atstore: expected `atstore <Type>.<field> requires <expr>`"))
				}
				tags, txt := parseTags(r3)
				e, err := parseSpecExpr(txt)
				if err != nil {
					return fail(err)
				}
				if cur.AtStore == nil {
					cur.AtStore = map[string][]*Clause{}
				}
				c := &Clause{Kind: "atstore", Tags: tags, Text: txt, E: e, Where: where, Ord: len(cur.AtStore[tn]) + 1}
				cur.AtStore[tn] = append(cur.AtStore[tn], c)
				for _, t := range tags {
					cur.Props[t] = true
				}
			case "atnew":
				// atnew <Type> requires [tags] expr : expr must hold at every allocation of <Type> in this
				// function (the point at which a record of that type comes into existence)
				tn, r2 := splitWord(rest)
				w2, r3 := splitWord(r2)
				if w2 != "requires" {
					return fail(fmt.Errorf("atnew: expected `atnew <Type> requires <expr>`"))
				}
				tags, txt := parseTags(r3)
				e, err := parseSpecExpr(txt)
				if err != nil {
					return fail(err)
				}
				if cur.AtNew == nil {
					cur.AtNew = map[string][]*Clause{}
				}
				c := &Clause{Kind: "atnew", Tags: tags, Text: txt, E: e, Where: where, Ord: len(cur.AtNew[tn]) + 1}
				cur.AtNew[tn] = append(cur.AtNew[tn], c)
				for _, t := range tags {
					cur.Props[t] = true
				}
			case "pure":
				cur.Pure = true
				cur.HasMod = true
			case "trusted":
				cur.Trusted = true
			case "fresh":
				cur.Fresh = true
			case "opaque":
				cur.Opaque = true
			case "terminates":
				cur.Terminate = true
			case "nullable":
				for _, a := range strings.Fields(rest) {
					cur.Nullable[strings.Trim(a, ",")] = true
				}
			case "callsback":
				for _, a := range strings.Fields(rest) {
					cur.Callsback[strings.Trim(a, ",")] = true
				}
			case "schema":
				cur.Schema = strings.Fields(rest)
			case "props":
				for _, a := range strings.Fields(rest) {
					cur.Props[strings.Trim(a, ",")] = true
				}
			default:
				return fail(fmt.Errorf("unknown clause keyword %q", word))
			}
		}
	}
	return nil
}

func splitWord(s string) (string, string) {
	s = strings.TrimSpace(s)
	i := strings.IndexAny(s, " \t")
	if i < 0 {
		return s, ""
	}
	return s[:i], strings.TrimSpace(s[i+1:])
}

// splitTopLevel splits on commas that are not nested in brackets/parens.
func splitTopLevel(s string) []string {
	var out []string
	depth := 0
	last := 0
	for i, c := range s {
		switch c {
		case '(', '[':
			depth++
		case ')', ']':
			depth--
		case ',':
			if depth == 0 {
				out = append(out, strings.TrimSpace(s[last:i]))
				last = i + 1
			}
		}
	}
	if strings.TrimSpace(s[last:]) != "" {
		out = append(out, strings.TrimSpace(s[last:]))
	}
	return out
}

// propUses: property P -> properties whose clauses a check of P also activates (specs/uses.txt): the
// contracts of P build on the invariants established for those properties in the same functions.
var propUses = map[string][]string{}

func clauseActive(c *Clause, prop string) bool {
	if len(c.Tags) == 0 || prop == "" || prop == "*" {
		return true
	}
	for _, t := range c.Tags {
		if t == prop {
			return true
		}
		for _, u := range propUses[prop] {
			if t == u {
				return true
			}
		}
	}
	return false
}
