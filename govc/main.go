package main

import (
	"bufio"
	"encoding/json"
	"flag"
	"fmt"
	"os"
	"path/filepath"
	"regexp"
	"sort"
	"strconv"
	"strings"
	"sync"
	"time"

	"golang.org/x/tools/go/ssa"
)

var verifDir = "/verif"

func main() {
	if len(os.Args) < 2 {
		fmt.Fprintln(os.Stderr, "usage: govc check|vc|list ...")
		os.Exit(2)
	}
	if d := os.Getenv("VERIF_DIR"); d != "" {
		verifDir = d
	}
	switch os.Args[1] {
	case "check":
		os.Exit(cmdCheck(os.Args[2:]))
	case "vc":
		os.Exit(cmdVC(os.Args[2:]))
	case "debug":
		os.Exit(cmdDebug(os.Args[2:]))
	case "libcalls":
		os.Exit(cmdLibCalls(os.Args[2:]))
	case "list":
		os.Exit(cmdList(os.Args[2:]))
	default:
		fmt.Fprintln(os.Stderr, "unknown command", os.Args[1])
		os.Exit(2)
	}
}

func load(repo string) *Verifier {
	if data, err := os.ReadFile(filepath.Join(verifDir, "specs", "uses.txt")); err == nil {
		for _, ln := range strings.Split(string(data), "\n") {
			f := strings.Fields(ln)
			if len(f) >= 2 && !strings.HasPrefix(f[0], "#") {
				propUses[strings.TrimSuffix(f[0], ":")] = f[1:]
			}
		}
	}
	v, err := loadProgram(repo, []string{filepath.Join(verifDir, "specs", "lib.spec")})
	if err != nil {
		fmt.Fprintln(os.Stderr, "govc: load error:", err)
		os.Exit(2)
	}
	return v
}

func cmdList(args []string) int {
	fs := flag.NewFlagSet("list", flag.ExitOnError)
	repo := fs.String("repo", "/repo", "repository")
	fs.Parse(args)
	v := load(*repo)
	for _, f := range v.AllFns {
		k := v.FuncKey[f]
		c := ""
		if con := v.DB.Contracts[k]; con != nil {
			var ps []string
			for p := range con.Props {
				ps = append(ps, p)
			}
			sort.Strings(ps)
			c = fmt.Sprintf(" contract(%d req, %d ens) %v", len(con.Requires), len(con.Ensures), ps)
		}
		var ms []string
		for m := range v.ModSets[f] {
			ms = append(ms, m)
		}
		sort.Strings(ms)
		fmt.Printf("%s%s mods=%v\n", k, c, ms)
	}
	return 0
}

func cmdVC(args []string) int {
	fs := flag.NewFlagSet("vc", flag.ExitOnError)
	repo := fs.String("repo", "/repo", "repository")
	fnKey := fs.String("fn", "", "function key")
	prop := fs.String("prop", "*", "property")
	out := fs.String("o", "/tmp/govc-vc", "output dir")
	fs.Parse(args)
	v := load(*repo)
	f := v.Funcs[*fnKey]
	if f == nil {
		fmt.Fprintln(os.Stderr, "no such function", *fnKey)
		return 2
	}
	c := v.newFnCtx(f, *prop)
	vc, err := c.generate()
	if err != nil {
		fmt.Fprintln(os.Stderr, err)
		return 2
	}
	os.MkdirAll(*out, 0755)
	for i, ob := range vc.Obs {
		os.WriteFile(filepath.Join(*out, fmt.Sprintf("%03d.smt2", i)), []byte("; "+ob.Name+"\n"+buildQuery(vc, i, true)), 0644)
		fmt.Printf("%03d %s  :: %s\n", i, ob.Name, ob.Text)
	}
	return 0
}

var hintSecs = map[string]float64{}

// ---------- known findings ----------

type KnownFinding struct {
	Property   string `json:"property"`
	Obligation string `json:"obligation"`
	What       string `json:"what"`
	Status     string `json:"status"` // "open" or "fixed"
	Commit     string `json:"commit,omitempty"`
	Witness    string `json:"witness,omitempty"`
}

func loadKnown() []KnownFinding {
	var out []KnownFinding
	f, err := os.Open(filepath.Join(verifDir, "known_findings.jsonl"))
	if err != nil {
		return nil
	}
	defer f.Close()
	sc := bufio.NewScanner(f)
	sc.Buffer(make([]byte, 1<<20), 1<<20)
	for sc.Scan() {
		ln := strings.TrimSpace(sc.Text())
		if ln == "" || strings.HasPrefix(ln, "#") {
			continue
		}
		var k KnownFinding
		if json.Unmarshal([]byte(ln), &k) == nil {
			out = append(out, k)
		}
	}
	return out
}

// loadNotClaimed: obligations that do not discharge on the unchanged tree and are NOT claimed
// (listed honestly in the evidence; they are neither proved nor reported as violations).
// ncSet: the not-claimed list. Site obligations (nilderef, index, typeassert, ... : the ones whose
// name ends in ":<expression text>") are matched without their running number and with SSA
// temporaries normalised, so that an unrelated edit that renumbers the sites of a function does not
// turn a not-claimed obligation into an alarm.
type ncSet map[string]bool

var ncOrdRe = regexp.MustCompile(`#\d+(\.\d+)*:`)
var ncTmpRe = regexp.MustCompile(`\bt\d+\b`)

func ncKey(name string) string {
	if i := strings.Index(name, "/panic#"); i >= 0 {
		// an explicit panic: its message text is not part of the identity of the site
		return name[:i] + "/panic"
	}
	if loc := ncOrdRe.FindStringIndex(name); loc != nil {
		return name[:loc[0]] + ":" + ncTmpRe.ReplaceAllString(name[loc[1]:], "t_")
	}
	return name
}

func (n ncSet) has(name string) bool { return n[name] || n[ncKey(name)] }

func loadNotClaimed() ncSet {
	out := ncSet{}
	data, err := os.ReadFile(filepath.Join(verifDir, "specs", "not_claimed.txt"))
	if err != nil {
		return out
	}
	for _, ln := range strings.Split(string(data), "\n") {
		ln = strings.TrimSpace(ln)
		if ln == "" || strings.HasPrefix(ln, "#") {
			continue
		}
		if i := strings.Index(ln, "  # "); i >= 0 {
			ln = strings.TrimSpace(ln[:i])
		}
		out[ln] = true
		out[ncKey(ln)] = true
	}
	return out
}

// ---------- check ----------

type fnJob struct {
	f   *ssa.Function
	vc  *FnVC
	err error
}

// propFunctions selects the functions whose obligations decide property prop.
func (v *Verifier) propFunctions(prop string) []*ssa.Function {
	var out []*ssa.Function
	for _, f := range v.AllFns {
		con := v.DB.Contracts[v.FuncKey[f]]
		if prop == "C20" {
			if con != nil && con.Trusted {
				continue
			}
			out = append(out, f)
			continue
		}
		if con != nil && con.Props[prop] && !con.Trusted {
			out = append(out, f)
			continue
		}
		// a caller of a function whose precondition is tagged with the property must establish it,
		// even if the caller carries no clause of the property itself
		if (con == nil || !con.Trusted) && v.callsTaggedRequires(f, prop) {
			out = append(out, f)
			continue
		}
		// C16: every function that iterates over a map owes the map-order frame obligation
		if prop == "C16" && (con == nil || !con.Trusted) && hasMapRange(f) {
			out = append(out, f)
			v.mapOrderOnly[f] = true
		}
	}
	return out
}

func (v *Verifier) callsTaggedRequires(f *ssa.Function, prop string) bool {
	for _, b := range f.Blocks {
		for _, in := range b.Instrs {
			ci, ok := in.(ssa.CallInstruction)
			if !ok {
				continue
			}
			g := ci.Common().StaticCallee()
			if g == nil {
				continue
			}
			gc := v.contractOf(g)
			if gc == nil {
				continue
			}
			for _, r := range gc.Requires {
				for _, t := range r.Tags {
					if t == prop {
						return true
					}
					for _, u := range propUses[prop] {
						if t == u {
							return true
						}
					}
				}
			}
		}
	}
	return false
}

func cmdCheck(args []string) int {
	fs := flag.NewFlagSet("check", flag.ExitOnError)
	repo := fs.String("repo", "/repo", "repository")
	prop := fs.String("prop", "", "property id")
	tier := fs.String("tier", "quick", "quick|thorough")
	only := fs.String("fn", "", "restrict to one function key")
	verbose := fs.Bool("v", false, "verbose")
	noEvidence := fs.Bool("no-evidence", false, "do not write evidence")
	timeout := fs.Int("timeout", 0, "per-query timeout (s)")
	writeHints := fs.Bool("write-hints", false, "record which back end discharged each slow obligation in specs/hints.txt")
	fs.Parse(args)
	hintsPath := filepath.Join(verifDir, "specs", "hints.txt")
	if data, err := os.ReadFile(hintsPath); err == nil {
		for _, ln := range strings.Split(string(data), "\n") {
			if strings.HasPrefix(ln, "#") {
				continue
			}
			f := strings.Split(ln, "\t")
			if len(f) >= 2 {
				solverHints[f[0]] = strings.TrimSpace(f[1])
				if len(f) >= 3 {
					if sec, err := strconv.ParseFloat(strings.TrimSpace(f[2]), 64); err == nil {
						hintSecs[f[0]] = sec
					}
				}
			}
		}
	}
	if *prop == "" {
		fmt.Fprintln(os.Stderr, "govc check: -prop required")
		return 2
	}
	t0 := time.Now()
	seed := 0
	if s := os.Getenv("VERIF_SEED"); s != "" {
		seed, _ = strconv.Atoi(s)
	}
	thorough := *tier == "thorough"
	to := 60
	if thorough {
		to = 180
	}
	if *timeout > 0 {
		to = *timeout
	}
	v := load(*repo)
	fns := v.propFunctions(*prop)
	if *only != "" {
		fns = nil
		if f := v.Funcs[*only]; f != nil {
			fns = []*ssa.Function{f}
		}
	}
	// contracts whose function disappeared: a violation of every property they serve
	orphanViolations := 0
	if *only == "" {
		for _, oc := range v.Orphans {
			if !(oc.Props[*prop] || *prop == "C20") {
				continue
			}
			orphanViolations++
			os.MkdirAll(filepath.Join(verifDir, "evidence", "replays"), 0755)
			path := filepath.Join(verifDir, "evidence", "replays", fmt.Sprintf("%s_%s.json", *prop, mangle(oc.Key+"/contract-mismatch")))
			data, _ := json.MarshalIndent(map[string]interface{}{"property": *prop, "obligation": strings.Replace(oc.Key, ":", ".", 1) + "/contract-mismatch", "kind": "contract-mismatch",
				"clause": "the function " + oc.Key + " under contract (" + oc.Where + ") no longer exists in the code: its obligations cannot be discharged", "reproduced_on_real_code": false}, "", " ")
			os.WriteFile(path, data, 0644)
			fmt.Printf("VIOLATION property=%s replay=%s no-failing-input-found\n", *prop, path)
			fmt.Printf("  obligation %s/contract-mismatch: the function under contract (%s) no longer exists\n", strings.Replace(oc.Key, ":", ".", 1), oc.Where)
		}
	}
	if len(fns) == 0 {
		if orphanViolations > 0 {
			return 1
		}
		fmt.Fprintf(os.Stderr, "govc: no function under contract for property %s\n", *prop)
		return 2
	}
	// generate VCs (sequential: the universe tables are shared)
	var jobs []*fnJob
	for _, f := range fns {
		c := v.newFnCtx(f, *prop)
		vc, err := c.generate()
		jobs = append(jobs, &fnJob{f: f, vc: vc, err: err})
	}
	if *verbose {
		fmt.Fprintf(os.Stderr, "  [%.1fs] loaded and generated VCs for %d functions\n", time.Since(t0).Seconds(), len(jobs))
	}
	engineErr := false
	for _, j := range jobs {
		if j.err != nil {
			fmt.Fprintf(os.Stderr, "govc: engine error: %v\n", j.err)
			engineErr = true
		}
	}
	if engineErr {
		return 2
	}
	// select obligations: for a property other than C20 keep everything generated for its
	// functions; for C20 keep the safety obligations.
	type obRef struct {
		j *fnJob
		k int
	}
	var todo, covers []obRef
	for _, j := range jobs {
		for k, ob := range j.vc.Obs {
			if v.mapOrderOnly[j.f] && ob.Kind != "maporder" {
				continue // the function joined C16 for its map iteration only
			}
			if ob.Kind == "cover" {
				covers = append(covers, obRef{j, k})
				continue
			}
			if *prop == "C20" && !ob.Safety {
				continue
			}
			todo = append(todo, obRef{j, k})
		}
	}
	notClaimedPre := loadNotClaimed()
	var deferred []string
	if !thorough {
		// obligations that discharge, but not well within the quick budget, are checked in the thorough tier only
		if data, err := os.ReadFile(filepath.Join(verifDir, "specs", "slow.txt")); err == nil {
			slow := map[string]bool{}
			var slowPrefixes []string
			for _, ln := range strings.Split(string(data), "\n") {
				ln = strings.TrimSpace(ln)
				if ln == "" || strings.HasPrefix(ln, "#") {
					continue
				}
				if i := strings.Index(ln, "  # "); i >= 0 {
					ln = strings.TrimSpace(ln[:i])
				}
				if strings.HasSuffix(ln, "*") {
					slowPrefixes = append(slowPrefixes, strings.TrimSuffix(ln, "*"))
				} else {
					slow[ln] = true
				}
			}
			isSlow := func(n string) bool {
				if slow[n] {
					return true
				}
				for _, p := range slowPrefixes {
					if strings.HasPrefix(n, p) {
						return true
					}
				}
				return false
			}
			var keep []obRef
			for _, r := range todo {
				if isSlow(r.j.vc.Obs[r.k].Name) {
					deferred = append(deferred, r.j.vc.Obs[r.k].Name)
					continue
				}
				keep = append(keep, r)
			}
			todo = keep
		}
	}
	{
		var keep []obRef
		for _, r := range todo {
			ob := r.j.vc.Obs[r.k]
			if notClaimedPre.has(ob.Name) {
				ob.Result = "not-claimed" // not solved at all: neither proved nor reported
			}
			keep = append(keep, r)
		}
		todo = keep
	}
	// longest expected first (from the hints), so that the slow obligations do not start last
	sort.SliceStable(todo, func(a, b int) bool {
		return hintSecs[todo[a].j.vc.Obs[todo[a].k].Name] > hintSecs[todo[b].j.vc.Obs[todo[b].k].Name]
	})
	var mu sync.Mutex
	perBackend := map[string]map[string]int{}
	solverSecs := map[string]float64{}
	var wg sync.WaitGroup
	sem := make(chan struct{}, 40)
	// grouped obligations: one query for the whole group first; its `unsat` discharges every member,
	// anything else sends the members to the individual queries below
	{
		type gkey struct {
			j *fnJob
			g string
		}
		groups := map[gkey][]int{}
		var order []gkey
		for _, r := range todo {
			ob := r.j.vc.Obs[r.k]
			if ob.Group == "" || ob.Result == "not-claimed" {
				continue
			}
			k := gkey{r.j, ob.Group}
			if _, ok := groups[k]; !ok {
				order = append(order, k)
			}
			groups[k] = append(groups[k], r.k)
		}
		var wgg sync.WaitGroup
		for _, gk := range order {
			ks := groups[gk]
			if len(ks) < 2 {
				continue
			}
			wgg.Add(1)
			sem <- struct{}{}
			go func(gk gkey, ks []int) {
				defer wgg.Done()
				defer func() { <-sem }()
				q := buildQueryMulti(gk.j.vc, ks, false)
				res := raceUnsat(q, 20)
				if res.Answer != "unsat" {
					return
				}
				mu.Lock()
				for _, k := range ks {
					ob := gk.j.vc.Obs[k]
					ob.Result, ob.Solver, ob.Secs = "unsat", res.Solver+" (group "+gk.g+")", res.Secs/float64(len(ks))
				}
				if perBackend[res.Solver] == nil {
					perBackend[res.Solver] = map[string]int{}
				}
				perBackend[res.Solver]["unsat"] += len(ks)
				solverSecs[res.Solver] += res.Secs
				mu.Unlock()
				if *verbose {
					fmt.Fprintf(os.Stderr, "  group %-8s %-10s %5.2fs %s (%d obligations)\n", res.Answer, res.Solver, res.Secs, gk.g, len(ks))
				}
			}(gk, ks)
		}
		wgg.Wait()
	}
	for _, r := range todo {
		if r.j.vc.Obs[r.k].Result == "unsat" {
			continue
		}
		wg.Add(1)
		sem <- struct{}{}
		go func(r obRef) {
			defer wg.Done()
			defer func() { <-sem }()
			if r.j.vc.Obs[r.k].Result == "not-claimed" {
				return
			}
			res, per := discharge(r.j.vc, r.k, to, thorough)
			ob := r.j.vc.Obs[r.k]
			mu.Lock()
			ob.Result, ob.Solver, ob.Secs, ob.Model = res.Answer, res.Solver, res.Secs, res.Output
			for s, pr := range per {
				if perBackend[s] == nil {
					perBackend[s] = map[string]int{}
				}
				perBackend[s][pr.Answer]++
				solverSecs[s] += pr.Secs
			}
			if thorough && res.Answer == "unsat" {
				// every back end that answered must agree
				for _, pr := range per {
					if pr.Answer == "sat" {
						ob.Result = "disagree"
					}
				}
			}
			mu.Unlock()
			if *verbose {
				fmt.Fprintf(os.Stderr, "  %-8s %-10s %5.2fs %s\n", res.Answer, res.Solver, res.Secs, ob.Name)
			}
		}(r)
	}
	wg.Wait()
	if *verbose {
		fmt.Fprintf(os.Stderr, "  [%.1fs] first pass done\n", time.Since(t0).Seconds())
	}
	// second chance on a quiet machine: an obligation that ran out of time while all cores were busy
	// is tried again, four at a time, before it is reported (a `sat` answer is never retried)
	{
		np := loadNotClaimed()
		sem2 := make(chan struct{}, 2)
		var wg3 sync.WaitGroup
		// many undischarged obligations at once are not a scheduling accident: do not spend the
		// retry budget on them (a change that breaks an invariant typically breaks several)
		nRetry := 0
		for _, r := range todo {
			ob := r.j.vc.Obs[r.k]
			if (ob.Result == "timeout" || ob.Result == "error") && !np.has(ob.Name) {
				nRetry++
			}
		}
		for _, r := range todo {
			ob := r.j.vc.Obs[r.k]
			if ob.Result != "timeout" && ob.Result != "error" {
				continue
			}
			if np.has(ob.Name) || nRetry > 6 {
				continue
			}
			wg3.Add(1)
			sem2 <- struct{}{}
			go func(r obRef) {
				defer wg3.Done()
				defer func() { <-sem2 }()
				res, per := discharge(r.j.vc, r.k, to*3, thorough)
				ob := r.j.vc.Obs[r.k]
				mu.Lock()
				if res.Answer == "unsat" || res.Answer == "sat" {
					ob.Result, ob.Solver, ob.Secs, ob.Model = res.Answer, res.Solver+" (retry)", res.Secs, res.Output
				}
				for s, pr := range per {
					if perBackend[s] == nil {
						perBackend[s] = map[string]int{}
					}
					perBackend[s][pr.Answer]++
					solverSecs[s] += pr.Secs
				}
				mu.Unlock()
				if *verbose {
					fmt.Fprintf(os.Stderr, "  retry %-8s %-10s %5.2fs %s\n", res.Answer, res.Solver, res.Secs, ob.Name)
				}
			}(r)
		}
		wg3.Wait()
	}

	if *writeHints {
		for _, r := range todo {
			ob := r.j.vc.Obs[r.k]
			sv := strings.TrimSuffix(ob.Solver, " (retry)")
			if strings.Contains(sv, "(group") {
				continue
			}
			if ob.Result == "unsat" && (ob.Secs > 1.0 || (sv != "z3-5.1.0" && sv != ematchSolver.Name)) {
				solverHints[ob.Name] = sv
				hintSecs[ob.Name] = ob.Secs
			} else {
				delete(solverHints, ob.Name)
				delete(hintSecs, ob.Name)
			}
		}
		var names []string
		for n := range solverHints {
			names = append(names, n)
		}
		sort.Strings(names)
		var sb strings.Builder
		sb.WriteString("# obligation name <TAB> back end that discharged it (performance hints only; written by `govc check -write-hints`)\n")
		for _, n := range names {
			sb.WriteString(fmt.Sprintf("%s\t%s\t%.1f\n", n, solverHints[n], hintSecs[n]))
		}
		os.WriteFile(hintsPath, []byte(sb.String()), 0644)
	}
	// vacuity: every cover (function entry after the preconditions, every loop header after its
	// invariants) must be reachable, i.e. "false" must not be provable there.
	vacuous := 0
	var vacNames []string
	ncovers := 0
	{
		var wg2 sync.WaitGroup
		for _, r := range covers {
			wg2.Add(1)
			go func(r obRef) {
				defer wg2.Done()
				res := runSolver(contextBackground(), solvers[0], buildQuery(r.j.vc, r.k, false), 5)
				mu.Lock()
				ncovers++
				if res.Answer == "unsat" {
					vacuous++
					vacNames = append(vacNames, r.j.vc.Obs[r.k].Name)
				}
				mu.Unlock()
			}(r)
		}
		wg2.Wait()
	}
	notClaimed := loadNotClaimed()
	known := loadKnown()
	isKnown := func(name string) *KnownFinding {
		for i := range known {
			k := &known[i]
			if k.Status == "fixed" {
				continue
			}
			if k.Property == *prop && k.Obligation == name {
				return k
			}
		}
		return nil
	}
	total, discharged := 0, 0
	violations := 0
	var samples []map[string]interface{}
	var failed []*Obligation
	var knownHit, notClaimedHit []string
	nNotClaimed := 0
	for _, r := range todo {
		ob := r.j.vc.Obs[r.k]
		total++
		if ob.Result == "unsat" {
			discharged++
			if len(samples) < 6 && (ob.Kind == "ensures" || ob.Kind == "invariant" || len(samples) < 3) {
				samples = append(samples, map[string]interface{}{"obligation": ob.Name, "kind": ob.Kind, "answer": ob.Result, "solver": ob.Solver, "secs": round3(ob.Secs), "pos": ob.Pos})
			}
			continue
		}
		if notClaimed.has(ob.Name) {
			nNotClaimed++
			total--
			notClaimedHit = append(notClaimedHit, ob.Name)
			continue
		}
		if k := isKnown(ob.Name); k != nil {
			fmt.Printf("KNOWN-FINDING: property=%s %s %s\n", *prop, ob.Name, k.What)
			knownHit = append(knownHit, ob.Name)
			continue
		}
		failed = append(failed, ob)
	}
	exit := 0
	replayDir := filepath.Join(verifDir, "evidence", "replays")
	if len(failed) > 0 || vacuous > 0 {
		os.MkdirAll(replayDir, 0755)
	}
	for _, ob := range failed {
		violations++
		path := filepath.Join(replayDir, fmt.Sprintf("%s_%s.json", *prop, mangle(ob.Name)))
		if len(path) > 200 {
			path = path[:200] + ".json"
		}
		rp := buildReplay(v, *prop, ob)
		data, _ := json.MarshalIndent(rp, "", " ")
		os.WriteFile(path, data, 0644)
		suffix := ""
		if !rp.Reproduced {
			suffix = " no-failing-input-found"
		}
		fmt.Printf("VIOLATION property=%s replay=%s%s\n", *prop, path, suffix)
		fmt.Printf("  obligation %s (%s at %s): solver answer %s [%s]\n", ob.Name, ob.Kind, ob.Pos, ob.Result, ob.Solver)
		exit = 1
	}
	if vacuous > 0 {
		for _, n := range vacNames {
			fmt.Fprintf(os.Stderr, "govc: engine error: contradictory assumptions in %s (vacuous proof refused)\n", n)
		}
		return 2
	}
	wall := time.Since(t0).Seconds()
	if !*noEvidence && *only == "" {
		writeEvidence(v, *prop, *tier, seed, jobs, total, discharged, violations, knownHit, samples, perBackend, solverSecs, wall, notClaimedHit, ncovers, deferred)
	}
	fmt.Printf("property %s: %d obligations over %d functions, %d discharged, %d known findings, %d violations, %d not claimed (%.1fs)\n", *prop, total, len(jobs), discharged, len(knownHit), violations+orphanViolations, nNotClaimed, wall)
	if orphanViolations > 0 {
		exit = 1
	}
	return exit
}

func round3(f float64) float64 { return float64(int(f*1000)) / 1000 }

type Replay struct {
	Property   string   `json:"property"`
	Obligation string   `json:"obligation"`
	Kind       string   `json:"kind"`
	Function   string   `json:"function"`
	Position   string   `json:"position"`
	Clause     string   `json:"clause,omitempty"`
	Answer     string   `json:"solver_answer"`
	Solver     string   `json:"solver"`
	Output     string   `json:"solver_output"`
	Reproduced bool     `json:"reproduced_on_real_code"`
	ReplayLog  string   `json:"replay_log,omitempty"`
	ReplayTest string   `json:"replay_test,omitempty"`
	Notes      []string `json:"notes,omitempty"`
}

// perFunctionSummary: for every function under contract, how many obligations of each kind were
// generated and how many of them were discharged in this run (obligations that were deferred or not
// claimed have no result and are not counted as discharged).
func perFunctionSummary(jobs []*fnJob) []map[string]interface{} {
	var out []map[string]interface{}
	for _, j := range jobs {
		kinds := map[string]int{}
		disch := 0
		n := 0
		var secs float64
		for _, ob := range j.vc.Obs {
			if ob.Kind == "cover" {
				continue
			}
			n++
			kinds[ob.Kind]++
			if ob.Result == "unsat" {
				disch++
				secs += ob.Secs
			}
		}
		out = append(out, map[string]interface{}{"function": j.vc.Key, "obligations_generated": n, "discharged_in_this_run": disch, "by_kind": kinds, "solver_seconds": round3(secs)})
	}
	return out
}

func writeEvidence(v *Verifier, prop, tier string, seed int, jobs []*fnJob, total, discharged, violations int, knownHit []string, samples []map[string]interface{}, perBackend map[string]map[string]int, solverSecs map[string]float64, wall float64, notClaimed []string, ncovers int, deferred []string) {
	var fns []string
	assump := map[string]bool{}
	lib := map[string]bool{}
	var unsup []string
	for _, j := range jobs {
		fns = append(fns, j.vc.Key)
		for _, a := range j.vc.Assumptions {
			assump[a] = true
		}
		for _, a := range j.vc.UsedLib {
			lib[a] = true
		}
		unsup = append(unsup, j.vc.Unsupported...)
	}
	var as []string
	for a := range assump {
		as = append(as, a)
	}
	sort.Strings(as)
	var ls []string
	for a := range lib {
		ls = append(ls, a)
	}
	sort.Strings(ls)
	trusted := []string{
		"govc (this repository's VC generator: go/ssa -> SMT-LIB; loop cutting; Barnett-Leino block predicates)",
		"SMT solvers z3 4.8.12, z3 5.1.0, cvc5 1.0.3 (an obligation counts as discharged on the first `unsat`)",
		"go/packages + go/ssa (x/tools v0.29.0) build the SSA from /repo's working tree",
		"library contracts in /verif/specs/lib.spec (every entry used is listed under coverage.lib_contracts_used)",
		"Go type system facts: values of sealed interface types (go/ast, go/types) hold one of their implementers",
		"machine integers are treated as mathematical integers (no overflow reasoning); strings are uninterpreted identifiers with length, concatenation and substring functions",
		"partial correctness only: termination of loops and recursion is not proved",
		"callback schemas of library functions (typeutil.Map.Iterate visits every key; astutil.Apply calls post bottom-up once per node; ast.Inspect descends while the callback returns true); preconditions of callbacks that mention their parameters are assumed as such schema facts",
		"global disciplines checked where values are created and assumed where they are read: no typed nil in interfaces, no nil element in slices of pointers, field invariants (listed under assumptions when used)",
	}
	ev := map[string]interface{}{
		"property_id": prop,
		"tier":        tier,
		"seed":        seed,
		"level":       "proof",
		"wall_s":      round3(wall),
		"violations":  violations,
		"assumptions": as,
		"coverage": map[string]interface{}{
			"obligations":              total,
			"discharged":               discharged,
			"checker_cmd":              fmt.Sprintf("bin/govc check -prop %s -tier %s", prop, tier),
			"trusted_base":             trusted,
			"functions_under_contract": fns,
			"per_backend":              perBackend,
			"solver_seconds":           solverSecs,
			"lib_contracts_used":       ls,
			"known_findings":           knownHit,
			"unsupported":              unsup,
			"samples":                  samples,
			"per_function":             perFunctionSummary(jobs),
			"partial_correctness_only": true,
			"not_claimed_obligations":  notClaimed,
			"deferred_to_thorough":     deferred,
			"vacuity_covers_reachable": ncovers,
		},
	}
	extra := extraEvidence(prop)
	for k, val := range extra {
		ev["coverage"].(map[string]interface{})[k] = val
	}
	data, _ := json.MarshalIndent(ev, "", " ")
	os.MkdirAll(filepath.Join(verifDir, "evidence"), 0755)
	os.WriteFile(filepath.Join(verifDir, "evidence", prop+".json"), data, 0644)
}

// extraEvidence lets side checks (bounded stand-ins run by ./check) contribute to the evidence.
func extraEvidence(prop string) map[string]interface{} {
	out := map[string]interface{}{}
	p := filepath.Join(verifDir, "evidence", ".extra_"+prop+".json")
	if data, err := os.ReadFile(p); err == nil {
		json.Unmarshal(data, &out)
	}
	return out
}

func cmdLibCalls(args []string) int {
	fs := flag.NewFlagSet("libcalls", flag.ExitOnError)
	repo := fs.String("repo", "/repo", "repository")
	fs.Parse(args)
	v := load(*repo)
	cnt := map[string]int{}
	sigs := map[string]string{}
	for _, f := range v.AllFns {
		for _, b := range f.Blocks {
			for _, in := range b.Instrs {
				ci, ok := in.(ssa.CallInstruction)
				if !ok {
					continue
				}
				cc := ci.Common()
				if cc.IsInvoke() {
					cnt["invoke "+invokeKey(cc)]++
					continue
				}
				if cal := cc.StaticCallee(); cal != nil && !v.inModule(cal) {
					cnt["static "+libKey(cal)]++
					sigs[libKey(cal)] = cal.Signature.String()
				}
			}
		}
	}
	var keys []string
	for k := range cnt {
		keys = append(keys, k)
	}
	sort.Strings(keys)
	for _, k := range keys {
		name := strings.SplitN(k, " ", 2)[1]
		mark := " "
		if v.DB.Contracts[name] != nil {
			mark = "*"
		}
		fmt.Printf("%s %3d %s %s\n", mark, cnt[k], k, sigs[name])
	}
	return 0
}

// cmdDebug prints the failing path (block sequence with branch conditions) of a refuted obligation.
func cmdDebug(args []string) int {
	fs := flag.NewFlagSet("debug", flag.ExitOnError)
	repo := fs.String("repo", "/repo", "repository")
	fnKey := fs.String("fn", "", "function key")
	prop := fs.String("prop", "*", "property")
	sub := fs.String("ob", "", "obligation name substring")
	evals := fs.String("eval", "", "extra terms to evaluate, separated by ;")
	fs.Parse(args)
	v := load(*repo)
	f := v.Funcs[*fnKey]
	if f == nil {
		fmt.Fprintln(os.Stderr, "no such function")
		return 2
	}
	c := v.newFnCtx(f, *prop)
	vc, err := c.generate()
	if err != nil {
		fmt.Fprintln(os.Stderr, err)
		return 2
	}
	for k, ob := range vc.Obs {
		if !strings.Contains(ob.Name, *sub) {
			continue
		}
		q := buildQuery(vc, k, false)
		var terms []string
		type ex struct {
			b, e int
		}
		var exs []ex
		for _, b := range vc.Order {
			terms = append(terms, okName(b))
			for e, x := range vc.BVC[b].Exits {
				terms = append(terms, x.Cond)
				exs = append(exs, ex{b.Index, e})
			}
		}
		for _, t := range terms {
			q += "(eval " + t + ")\n"
		}
		for _, t := range strings.Split(*evals, ";") {
			if strings.TrimSpace(t) != "" {
				q += "(eval " + t + ")\n"
			}
		}
		r := runSolver(contextBackground(), solvers[0], q, 30)
		lines := strings.Split(strings.TrimSpace(r.Output), "\n")
		fmt.Println(ob.Name, "=>", lines[0])
		if lines[0] != "sat" {
			continue
		}
		vals := lines[1:]
		i := 0
		okv := map[int]string{}
		condv := map[[2]int]string{}
		for _, b := range vc.Order {
			if i < len(vals) {
				okv[b.Index] = vals[i]
			}
			i++
			for e := range vc.BVC[b].Exits {
				if i < len(vals) {
					condv[[2]int{b.Index, e}] = vals[i]
				}
				i++
			}
		}
		// walk
		cur := vc.Fn.Blocks[0]
		for steps := 0; steps < 200 && cur != nil; steps++ {
			fmt.Printf("  block %d (%s) ok=%s\n", cur.Index, cur.Comment, okv[cur.Index])
			var next *ssa.BasicBlock
			for e, x := range vc.BVC[cur].Exits {
				cv := condv[[2]int{cur.Index, e}]
				tgt := -1
				if x.Target != nil {
					tgt = x.Target.Index
				}
				fmt.Printf("     exit %d -> %d cond=%s\n", e, tgt, cv)
				if cv == "true" && x.Target != nil && okv[x.Target.Index] == "false" && next == nil {
					next = x.Target
				}
			}
			cur = next
		}
		for ; i < len(vals); i++ {
			fmt.Println("  eval:", vals[i])
		}
	}
	return 0
}
