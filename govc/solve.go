package main

import (
	"bytes"
	"context"
	"fmt"
	"golang.org/x/tools/go/ssa"
	"os/exec"
	"strings"
	"sync"
	"time"
)

type SolverSpec struct {
	Name string
	Cmd  func(timeoutSec int) []string
	Pre  string
}

// ematchSolver: z3 5.1.0 restricted to E-matching (no model-based quantifier instantiation). An
// `unsat` from it is as good as any other; it never yields a usable model, so `sat`/`unknown` answers
// from it are ignored.
var ematchSolver = SolverSpec{Name: "z3-5.1.0-ematch", Cmd: func(t int) []string {
	return []string{"z3-new", "-in", "-smt2", fmt.Sprintf("-T:%d", t), "smt.auto_config=false", "smt.mbqi=false"}
}}

var solvers = []SolverSpec{
	{Name: "z3-5.1.0", Cmd: func(t int) []string { return []string{"z3-new", "-in", "-smt2", fmt.Sprintf("-T:%d", t)} }},
	{Name: "z3-4.8.12", Cmd: func(t int) []string { return []string{"z3", "-in", "-smt2", fmt.Sprintf("-T:%d", t)} }},
	{Name: "cvc5-1.0.3", Cmd: func(t int) []string {
		return []string{"cvc5", "--lang", "smt2", fmt.Sprintf("--tlimit=%d", t*1000), "--produce-models"}
	}},
}

// solverHints: obligation name -> back end that discharged it before.
var solverHints = map[string]string{}

type SolveResult struct {
	Answer string // unsat sat unknown timeout error
	Solver string
	Secs   float64
	Output string
}

var procSem = make(chan struct{}, 16)

func runSolver(ctx context.Context, s SolverSpec, query string, timeoutSec int) SolveResult {
	procSem <- struct{}{}
	defer func() { <-procSem }()
	if ctx.Err() != nil {
		return SolveResult{Answer: "cancelled", Solver: s.Name}
	}
	args := s.Cmd(timeoutSec)
	cctx, cancel := context.WithTimeout(ctx, time.Duration(timeoutSec+2)*time.Second)
	defer cancel()
	cmd := exec.CommandContext(cctx, args[0], args[1:]...)
	cmd.Stdin = strings.NewReader(query)
	var out bytes.Buffer
	cmd.Stdout = &out
	cmd.Stderr = &out
	t0 := time.Now()
	_ = cmd.Run()
	secs := time.Since(t0).Seconds()
	text := out.String()
	first := strings.TrimSpace(strings.SplitN(text, "\n", 2)[0])
	ans := "error"
	switch {
	case first == "unsat":
		ans = "unsat"
	case first == "sat":
		ans = "sat"
	case first == "unknown":
		ans = "unknown"
	case strings.Contains(first, "timeout") || cctx.Err() != nil:
		ans = "timeout"
	}
	if ctx.Err() != nil && ans != "unsat" && ans != "sat" {
		ans = "cancelled"
	}
	return SolveResult{Answer: ans, Solver: s.Name, Secs: secs, Output: text}
}

// buildQuery makes the query that checks obligation k of vc: the VC is sliced to the blocks from
// which the obligation's block is reachable; every other assertion on those paths is an assumption;
// nothing after the obligation is included.
func buildQuery(vc *FnVC, k int, wantModel bool) string {
	return buildQueryMulti(vc, []int{k}, wantModel)
}

// buildQueryMulti checks several obligations of the same item list at once (their conjunction, each
// under the assumptions that precede it): `unsat` discharges all of them.
func buildQueryMulti(vc *FnVC, ks []int, wantModel bool) string {
	if vc.Mismatch != "" {
		return "(set-logic ALL)\n(check-sat)\n"
	}
	members := map[*Obligation]bool{}
	for _, k := range ks {
		members[vc.Obs[k]] = true
	}
	// locate
	var tb *ssa.BasicBlock
	texit, titem := -1, -1
	for _, b := range vc.Order {
		bv := vc.BVC[b]
		for i, it := range bv.Items {
			if it.Ob != nil && members[it.Ob] {
				if tb != nil && (tb != b || texit != -1) {
					return "(set-logic ALL)\n(check-sat)\n" // not one item list: refuse (answers sat)
				}
				tb, titem = b, i
			}
		}
		for e := range bv.Exits {
			for i, it := range bv.Exits[e].Items {
				if it.Ob != nil && members[it.Ob] {
					if tb != nil && (tb != b || texit != e) {
						return "(set-logic ALL)\n(check-sat)\n"
					}
					tb, texit, titem = b, e, i
				}
			}
		}
	}
	var sb strings.Builder
	sb.WriteString("(set-option :produce-models true)\n(set-logic ALL)\n")
	sb.WriteString(vc.Decls)
	for _, d := range vc.Defs {
		sb.WriteString("(assert " + d + ")\n")
	}
	if tb == nil {
		sb.WriteString("(assert false)\n(check-sat)\n")
		return sb.String()
	}
	// ancestors of tb in the cut graph
	reach := map[*ssa.BasicBlock]bool{tb: true}
	for changed := true; changed; {
		changed = false
		for _, b := range vc.Order {
			if reach[b] {
				continue
			}
			for _, ex := range vc.BVC[b].Exits {
				if ex.Target != nil && reach[ex.Target] {
					reach[b] = true
					changed = true
				}
			}
		}
	}
	fold := func(items []Item, tail string) string {
		f := tail
		for i := len(items) - 1; i >= 0; i-- {
			it := items[i]
			if it.Kind == "cover" || it.F == "true" {
				continue
			}
			if it.Ob != nil && members[it.Ob] {
				f = sAnd(it.F, f) // an earlier member of the batch: part of the goal
				continue
			}
			f = sImp(it.F, f)
		}
		return f
	}
	goal := func(it Item) string {
		if it.Kind == "cover" {
			return "false"
		}
		return it.F
	}
	for _, b := range vc.Order {
		if !reach[b] {
			continue
		}
		bv := vc.BVC[b]
		var f string
		if b == tb && texit < 0 {
			f = fold(bv.Items[:titem], goal(bv.Items[titem]))
		} else {
			var ex []string
			for e, x := range bv.Exits {
				if b == tb && e == texit {
					ex = append(ex, sImp(x.Cond, fold(x.Items[:titem], goal(x.Items[titem]))))
					continue
				}
				if b == tb {
					continue // other exits of the target block are irrelevant
				}
				if x.Target == nil || !reach[x.Target] {
					continue
				}
				ex = append(ex, sImp(x.Cond, fold(x.Items, okName(x.Target))))
			}
			f = fold(bv.Items, sAnd(ex...))
		}
		sb.WriteString(fmt.Sprintf("(assert (=> %s %s))\n", f, okName(b)))
	}
	sb.WriteString(fmt.Sprintf("(assert (not %s))\n", okName(vc.Fn.Blocks[0])))
	sb.WriteString("(check-sat)\n")
	if wantModel {
		sb.WriteString("(get-model)\n")
	}
	return sb.String()
}

// discharge runs the portfolio on one obligation.
// quick: z3-new alone first (short budget), then all three raced.
// thorough: all back ends run to completion; the answers are recorded per back end.
func discharge(vc *FnVC, k int, timeoutSec int, thorough bool) (SolveResult, map[string]SolveResult) {
	per := map[string]SolveResult{}
	if st := vc.Obs[k].Static; st != "" {
		r := SolveResult{Answer: "unsat", Solver: "frame-analysis"}
		if st != "true" {
			r.Answer = "sat"
			r.Output = "frame analysis: " + vc.Obs[k].Text
		}
		per[r.Solver] = r
		return r, per
	}
	q := buildQuery(vc, k, true)
	if !thorough {
		// stage 0: the back end that discharged this obligation last time (specs/hints.txt: performance
		// data only; any other outcome falls through to the portfolio)
		if h, ok := solverHints[vc.Obs[k].Name]; ok {
			var sp *SolverSpec
			for i := range solvers {
				if solvers[i].Name == h {
					sp = &solvers[i]
				}
			}
			if h == ematchSolver.Name {
				sp = &ematchSolver
			}
			if sp != nil {
				r := runSolver(context.Background(), *sp, q, timeoutSec)
				if r.Answer == "unsat" || (r.Answer == "sat" && sp != &ematchSolver) {
					per[r.Solver] = r
					return r, per
				}
			}
		}
		// stage 1: default z3 5.1.0 and its E-matching-only configuration, short budget; the first
		// definitive answer stops the other
		ctx1, cancel1 := context.WithCancel(context.Background())
		c1 := make(chan SolveResult, 2)
		go func() { c1 <- runSolver(ctx1, solvers[0], q, 3) }()
		go func() { c1 <- runSolver(ctx1, ematchSolver, q, 3) }()
		var first *SolveResult
		for i := 0; i < 2; i++ {
			r := <-c1
			if r.Solver == ematchSolver.Name && r.Answer != "unsat" {
				continue
			}
			if r.Answer == "cancelled" {
				continue
			}
			per[r.Solver] = r
			if r.Answer == "unsat" || r.Answer == "sat" {
				rc := r
				first = &rc
				break
			}
		}
		cancel1()
		if first != nil {
			return *first, per
		}
	}
	ctx, cancel := context.WithCancel(context.Background())
	defer cancel()
	ch := make(chan SolveResult, len(solvers)+1)
	var wg sync.WaitGroup
	all := append([]SolverSpec{ematchSolver}, solvers...)
	for _, s := range all {
		wg.Add(1)
		go func(s SolverSpec) {
			defer wg.Done()
			r := runSolver(ctx, s, q, timeoutSec)
			if s.Name == ematchSolver.Name && r.Answer != "unsat" {
				r.Answer = "cancelled" // only its refutations count
			}
			ch <- r
		}(s)
	}
	go func() { wg.Wait(); close(ch) }()
	best := SolveResult{Answer: "unknown"}
	for r := range ch {
		if r.Answer != "cancelled" {
			per[r.Solver] = r
		}
		if r.Answer == "unsat" || r.Answer == "sat" {
			if best.Answer != "unsat" && best.Answer != "sat" {
				best = r
				if !thorough {
					cancel()
				} else {
					// thorough: the other back ends get a grace period to agree or disagree, then stop
					time.AfterFunc(time.Duration(10+3*r.Secs)*time.Second, cancel)
				}
			} else if best.Answer != r.Answer {
				best = SolveResult{Answer: "disagree", Solver: best.Solver + " vs " + r.Solver, Output: best.Output}
			}
		} else if best.Answer == "unknown" && r.Answer == "timeout" {
			best = SolveResult{Answer: "timeout", Solver: r.Solver, Secs: r.Secs, Output: r.Output}
		} else if best.Answer == "unknown" && r.Answer == "unknown" {
			best.Solver, best.Secs, best.Output = r.Solver, r.Secs, r.Output
		}
	}
	return best, per
}

// raceUnsat races the E-matching configuration and the default z3 5.1.0 on a query and returns the
// first `unsat` (or the last other answer).
func raceUnsat(q string, timeoutSec int) SolveResult {
	ctx, cancel := context.WithCancel(context.Background())
	defer cancel()
	ch := make(chan SolveResult, 2)
	go func() { ch <- runSolver(ctx, ematchSolver, q, timeoutSec) }()
	go func() { ch <- runSolver(ctx, solvers[0], q, timeoutSec) }()
	var last SolveResult
	for i := 0; i < 2; i++ {
		r := <-ch
		if r.Answer == "unsat" {
			return r
		}
		last = r
	}
	return last
}
