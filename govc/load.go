package main

import (
	"fmt"
	"go/types"
	"os"
	"path/filepath"
	"sort"
	"strings"

	"golang.org/x/tools/go/packages"
	"golang.org/x/tools/go/ssa"
	"golang.org/x/tools/go/ssa/ssautil"
)

// Verifier holds the loaded program and all program-wide tables.
type Verifier struct {
	RepoDir        string
	mapOrderOnly   map[*ssa.Function]bool // functions that joined C16 for a map iteration only
	Prog           *ssa.Program
	Pkgs           []*packages.Package
	SPkgs          map[string]*ssa.Package // by package name ("wire", "main")
	ModPkgs        map[*types.Package]bool // packages whose bodies are verified
	DB             *SpecDB
	U              *Universe
	Funcs          map[string]*ssa.Function // key "pkg:RelString"
	FuncKey        map[*ssa.Function]string
	AllFns         []*ssa.Function
	ModSets        map[*ssa.Function]map[string]bool
	GlobalsWritten map[*ssa.Global]bool
	ImplCache      map[string][]int
	TypesByPkgName map[string]*types.Package
	SpecFiles      []string
	Orphans        []*Contract // contracts whose function no longer exists
}

func loadProgram(repo string, specFiles []string) (*Verifier, error) {
	cfg := &packages.Config{Mode: packages.LoadAllSyntax, Dir: repo, BuildFlags: []string{"-tags=verif"},
		Env: append(os.Environ(), "GOFLAGS=-mod=mod", "GOPROXY=off", "GOSUMDB=off", "GOTOOLCHAIN=local")}
	pkgs, err := packages.Load(cfg, "./internal/wire", "./cmd/wire")
	if err != nil {
		return nil, err
	}
	if packages.PrintErrors(pkgs) > 0 {
		return nil, fmt.Errorf("package load errors")
	}
	prog, spkgs := ssautil.AllPackages(pkgs, ssa.GlobalDebug)
	prog.Build()
	v := &Verifier{RepoDir: repo, mapOrderOnly: map[*ssa.Function]bool{}, Prog: prog, Pkgs: pkgs, SPkgs: map[string]*ssa.Package{}, ModPkgs: map[*types.Package]bool{},
		DB: newSpecDB(), U: newUniverse(), Funcs: map[string]*ssa.Function{}, FuncKey: map[*ssa.Function]string{},
		ModSets: map[*ssa.Function]map[string]bool{}, GlobalsWritten: map[*ssa.Global]bool{}, ImplCache: map[string][]int{},
		TypesByPkgName: map[string]*types.Package{}}
	for i, sp := range spkgs {
		if sp == nil {
			continue
		}
		v.SPkgs[sp.Pkg.Name()] = sp
		v.ModPkgs[sp.Pkg] = true
		_ = i
	}
	// all functions of the module packages, including closures and methods
	all := ssautil.AllFunctions(prog)
	for f := range all {
		if f.Pkg == nil || !v.ModPkgs[f.Pkg.Pkg] {
			// bound-method wrappers and closures have Pkg set via parent
			p := f
			for p.Parent() != nil {
				p = p.Parent()
			}
			if p.Pkg == nil || !v.ModPkgs[p.Pkg.Pkg] {
				// $bound wrappers: Pkg nil, but the object belongs to the module
				if f.Synthetic != "" && f.Object() != nil && f.Object().Pkg() != nil && v.ModPkgs[f.Object().Pkg()] && strings.HasSuffix(f.Name(), "$bound") {
					// keep
				} else {
					continue
				}
			}
		}
		if f.Blocks == nil {
			continue
		}
		if f.Synthetic != "" && !strings.HasSuffix(f.Name(), "$bound") && !(f.Synthetic == "package initializer" && f.Pkg != nil && v.ModPkgs[f.Pkg.Pkg]) {
			continue // wrappers
		}
		key := v.keyOf(f)
		v.Funcs[key] = f
		v.FuncKey[f] = key
		v.AllFns = append(v.AllFns, f)
	}
	sort.Slice(v.AllFns, func(i, j int) bool { return v.FuncKey[v.AllFns[i]] < v.FuncKey[v.AllFns[j]] })
	// package name table for resolving type names in specs
	var walk func(p *types.Package)
	seen := map[*types.Package]bool{}
	walk = func(p *types.Package) {
		if seen[p] {
			return
		}
		seen[p] = true
		if _, dup := v.TypesByPkgName[p.Name()]; !dup || v.ModPkgs[p] {
			v.TypesByPkgName[p.Name()] = p
		}
		for _, q := range p.Imports() {
			walk(q)
		}
	}
	for _, p := range pkgs {
		walk(p.Types)
	}
	// contract files
	for _, p := range pkgs {
		for _, gf := range p.GoFiles {
			if strings.HasPrefix(filepath.Base(gf), "verif_") {
				specFiles = append(specFiles, gf+"|"+p.Types.Name())
			}
		}
		for _, gf := range p.IgnoredFiles {
			_ = gf
		}
	}
	v.SpecFiles = specFiles
	for _, sf := range specFiles {
		path, pkgName := sf, ""
		if i := strings.Index(sf, "|"); i >= 0 {
			path, pkgName = sf[:i], sf[i+1:]
		}
		tmp := newSpecDB()
		if err := tmp.loadFile(path, pkgName == ""); err != nil {
			return nil, err
		}
		for k, c := range tmp.Contracts {
			key := k
			if !c.Lib {
				key = pkgName + ":" + k
				if _, ok := v.Funcs[key]; !ok {
					// the function the contract was written for is gone (renamed, inlined, closure removed): the
					// contract cannot be discharged; checks of the properties it serves report this as a violation
					c.Key = key
					v.Orphans = append(v.Orphans, c)
					continue
				}
			}
			if _, dup := v.DB.Contracts[key]; dup {
				return nil, fmt.Errorf("%s: duplicate contract %q", c.Where, key)
			}
			c.Key = key
			v.DB.Contracts[key] = c
		}
		for k, d := range tmp.Defines {
			v.DB.Defines[k] = d
		}
		for k, d := range tmp.UFuns {
			v.DB.UFuns[k] = d
		}
		for k, d := range tmp.Ghosts {
			v.DB.Ghosts[k] = d
		}
		v.DB.FieldInvs = append(v.DB.FieldInvs, tmp.FieldInvs...)
		v.DB.NewInvs = append(v.DB.NewInvs, tmp.NewInvs...)
		v.DB.GlobalInvs = append(v.DB.GlobalInvs, tmp.GlobalInvs...)
		v.DB.Axioms = append(v.DB.Axioms, tmp.Axioms...)
		v.DB.NLibEntries += tmp.NLibEntries
		v.DB.NAxiom += tmp.NAxiom
	}
	if err := v.expandSchemas(); err != nil {
		return nil, err
	}
	v.scanGlobals()
	v.computeModSets()
	return v, nil
}

func (v *Verifier) keyOf(f *ssa.Function) string {
	root := f
	for root.Parent() != nil {
		root = root.Parent()
	}
	var pkg *types.Package
	if root.Pkg != nil {
		pkg = root.Pkg.Pkg
	} else if f.Object() != nil {
		pkg = f.Object().Pkg()
	}
	name := f.RelString(pkg)
	pn := "?"
	if pkg != nil {
		pn = pkg.Name()
	}
	return pn + ":" + name
}

// libKey is the lookup key of a function outside the module.
func libKey(f *ssa.Function) string { return f.String() }

func (v *Verifier) inModule(f *ssa.Function) bool {
	_, ok := v.FuncKey[f]
	return ok
}

func (v *Verifier) contractOf(f *ssa.Function) *Contract {
	if k, ok := v.FuncKey[f]; ok {
		return v.DB.Contracts[k]
	}
	return v.DB.Contracts[libKey(f)]
}

// scanGlobals records which package-level variables are assigned outside init.
func (v *Verifier) scanGlobals() {
	for _, f := range v.AllFns {
		if f.Synthetic == "package initializer" {
			continue
		}
		for _, b := range f.Blocks {
			for _, in := range b.Instrs {
				if st, ok := in.(*ssa.Store); ok {
					if g, ok := st.Addr.(*ssa.Global); ok {
						v.GlobalsWritten[g] = true
					}
				}
			}
		}
	}
}

// lookupType resolves a type name used in a contract ("*ast.CallExpr", "call", "[]string").
func (v *Verifier) lookupType(name string, home *types.Package) (types.Type, error) {
	if strings.HasPrefix(name, "*") {
		t, err := v.lookupType(name[1:], home)
		if err != nil {
			return nil, err
		}
		return types.NewPointer(t), nil
	}
	if strings.HasPrefix(name, "[]") {
		t, err := v.lookupType(name[2:], home)
		if err != nil {
			return nil, err
		}
		return types.NewSlice(t), nil
	}
	if i := strings.Index(name, "."); i >= 0 {
		p := v.TypesByPkgName[name[:i]]
		if p == nil {
			return nil, fmt.Errorf("unknown package %q in type %q", name[:i], name)
		}
		o := p.Scope().Lookup(name[i+1:])
		if o == nil {
			return nil, fmt.Errorf("unknown type %q", name)
		}
		return o.Type(), nil
	}
	if o := types.Universe.Lookup(name); o != nil {
		if tn, ok := o.(*types.TypeName); ok {
			return tn.Type(), nil
		}
	}
	if home != nil {
		if o := home.Scope().Lookup(name); o != nil {
			return o.Type(), nil
		}
	}
	for p := range v.ModPkgs {
		if o := p.Scope().Lookup(name); o != nil {
			if _, ok := o.(*types.TypeName); ok {
				return o.Type(), nil
			}
		}
	}
	return nil, fmt.Errorf("unknown type %q", name)
}

// implementers lists the type tags of the concrete types known to implement iface
// among the named types of the package that declares iface (sealed-interface view).
// The second result says whether the interface is treated as sealed.
func (v *Verifier) implementers(it types.Type) ([]int, bool) {
	named, ok := it.(*types.Named)
	if !ok {
		return nil, false
	}
	pkg := named.Obj().Pkg()
	if pkg == nil {
		return nil, false
	}
	path := pkg.Path()
	if path != "go/ast" && path != "go/types" {
		return nil, false
	}
	key := typeKey(it)
	if ids, ok := v.ImplCache[key]; ok {
		return ids, true
	}
	iface := it.Underlying().(*types.Interface)
	var ids []int
	scope := pkg.Scope()
	for _, n := range scope.Names() {
		tn, ok := scope.Lookup(n).(*types.TypeName)
		if !ok {
			continue
		}
		t := tn.Type()
		if _, isIface := t.Underlying().(*types.Interface); isIface {
			continue
		}
		if types.Implements(t, iface) {
			ids = append(ids, v.U.tagOf(t))
		}
		pt := types.NewPointer(t)
		if types.Implements(pt, iface) {
			ids = append(ids, v.U.tagOf(pt))
		}
	}
	sort.Ints(ids)
	v.ImplCache[key] = ids
	return ids, true
}
