package main

// SSA -> verification conditions.
//
// One FnCtx per (function, property).  The function body is cut at natural-loop
// headers, every SSA register becomes an SMT constant with a global defining
// equation, heap arrays are threaded through the blocks (Burstall-Bornat, one
// array per struct field / cell type / backing-array element type / map type),
// and every basic block gets a Barnett-Leino block predicate.  Each assertion
// is guarded by a selector so that one query per obligation can be produced
// from the common prefix.

import (
	"fmt"
	"go/constant"
	"go/token"
	"go/types"
	"os"
	"sort"
	"strings"

	"golang.org/x/tools/go/ssa"
)

type Obligation struct {
	Static  string // "true"/"false": decided by the frame analysis, no solver query (kind maporder)
	Name    string
	Kind    string // ensures requires invariant typeassert index slice nilderef nilmap panic div unsupported purity fieldinv
	Fn      string
	Sel     string
	Text    string // source text / clause text
	Pos     string
	Tags    []string
	Safety  bool
	Result  string // unsat sat unknown timeout
	Solver  string
	Secs    float64
	Model   string
	QueryID int
	Group   string // obligations of one group (same item list) are first tried as one query
}

type State struct {
	arr   map[string]string
	alloc string
}

func (s *State) clone() *State {
	n := &State{arr: make(map[string]string, len(s.arr)), alloc: s.alloc}
	for k, v := range s.arr {
		n.arr[k] = v
	}
	return n
}

type Step struct {
	IsIdx bool
	Idx   string
	Field int
	SI    *StructInfo
}

type Loc struct {
	Arr   string // heap array name; "" for struct-object pseudo location
	Ref   string
	Path  []Step
	S     Sort // sort at the end of the path
	GT    types.Type
	Obj   bool
	Local bool // base is an allocation of this function
}

type Bind struct {
	V     Val
	L     *Loc
	IsLoc bool
}

type Item struct {
	Kind string // assume assert
	F    string
	Ob   *Obligation
}

type Exit struct {
	Cond   string
	Items  []Item
	Target *ssa.BasicBlock // nil: stop
}

type BlockVC struct {
	Items []Item
	Exits []Exit
	In    *State
	Out   *State
	Done  bool
}

type PreciseMod struct {
	Arr   string
	Base  ssa.Value // loop-invariant slice / object / map whose entry changes
	Slice bool
}

type Loop struct {
	Header *ssa.BasicBlock
	Blocks map[*ssa.BasicBlock]bool
	Mods   map[string]bool
	PMods  []PreciseMod // arrays of Mods that change only at these (loop-invariant) bases
	Ord    int
	Label  string
	Invs   []*Clause
}

type FnCtx struct {
	filling    []fillRec
	atNewSeen  map[string]bool
	pendingInv []pendInv
	fillTypes  map[string]bool
	V          *Verifier
	U          *Universe
	fn         *ssa.Function
	con        *Contract
	prop       string
	D          *Decls
	pfx        string

	arrSorts    map[string]Sort
	env         map[ssa.Value]*Bind
	defs        []string
	obs         []*Obligation
	nfresh      int
	nobs        map[string]int
	bvc         map[*ssa.BasicBlock]*BlockVC
	loops       map[*ssa.BasicBlock]*Loop
	loopList    []*Loop
	entry       *State
	names       map[string]ssa.Value // source-level name -> value (from DebugRef / params)
	nameAll     map[string][]ssa.Value
	assumptions map[string]bool
	usedLib     map[string]bool
	retBlocks   []*ssa.BasicBlock
	curItems    *[]Item
	cur         *State
	curBlock    *ssa.BasicBlock
	defers      []*ssa.Defer
	axiomsAdded bool
	unsupported []string
	allocSeq    int
	grounded    map[string]bool
	usesPtrTag  bool
	lensuresAt  int
	home        *types.Package
}

func (v *Verifier) newFnCtx(fn *ssa.Function, prop string) *FnCtx {
	c := &FnCtx{V: v, U: v.U, fn: fn, con: v.contractOf(fn), prop: prop, D: newDecls(), arrSorts: map[string]Sort{},
		env: map[ssa.Value]*Bind{}, nobs: map[string]int{}, bvc: map[*ssa.BasicBlock]*BlockVC{}, loops: map[*ssa.BasicBlock]*Loop{},
		atNewSeen: map[string]bool{}, grounded: map[string]bool{}, names: map[string]ssa.Value{}, nameAll: map[string][]ssa.Value{}, assumptions: map[string]bool{}, usedLib: map[string]bool{}}
	root := fn
	for root.Parent() != nil {
		root = root.Parent()
	}
	if root.Pkg != nil {
		c.home = root.Pkg.Pkg
	} else if fn.Object() != nil {
		c.home = fn.Object().Pkg()
	}
	c.D.add("Iface", "(declare-datatypes ((Iface 0)) (((mk_iface (itag Int) (ipay Int)))))")
	c.D.add("Slice", "(declare-datatypes ((Slice 0)) (((mk_slice (sref Int) (soff Int) (slen Int)))))")
	c.D.add("Event", "(declare-datatypes ((Event 0)) (((mk_ev (ev_fmt Int) (ev_n Int) (ev_a0 Iface) (ev_a1 Iface) (ev_a2 Iface) (ev_a3 Iface)))))")
	return c
}

func (c *FnCtx) fresh(base string) string {
	c.nfresh++
	return fmt.Sprintf("%s!%d", base, c.nfresh)
}

func (c *FnCtx) freshConst(base string, s Sort) string {
	n := c.fresh(base)
	n = "|" + n + "|"
	c.D.constant(n, s)
	return n
}

func (c *FnCtx) note(assumption string) { c.assumptions[assumption] = true }

// ---------- sorts ----------

func (c *FnCtx) sortOf(t types.Type) Sort {
	switch u := t.Underlying().(type) {
	case *types.Basic:
		if u.Info()&types.IsBoolean != 0 {
			return SBool
		}
		return SInt
	case *types.Pointer, *types.Map, *types.Chan, *types.Signature:
		return SInt
	case *types.Interface:
		return SIface
	case *types.Slice:
		return SSlice
	case *types.Struct:
		return c.structSort(t).sort()
	case *types.Array:
		return arrSort(SInt, c.sortOf(u.Elem()))
	case *types.Tuple:
		return "Tuple"
	}
	return SInt
}

func (si *StructInfo) sort() Sort { return Sort(si.SortName) }

func (c *FnCtx) structSort(t types.Type) *StructInfo {
	st := t.Underlying().(*types.Struct)
	name := "S_" + mangle(tstr(t))
	si, ok := c.U.structs[name]
	if !ok {
		si = &StructInfo{SortName: name, T: st, Named: tstr(t)}
		c.U.structs[name] = si
		for i := 0; i < st.NumFields(); i++ {
			f := st.Field(i)
			si.Fields = append(si.Fields, FieldInfo{Name: f.Name(), Acc: fmt.Sprintf("%s_%d_%s", name, i, mangle(f.Name())), GT: f.Type()})
		}
	}
	if !c.D.seen[name] {
		// declare nested sorts first
		c.D.seen[name] = true // guard against (impossible) recursion
		delete(c.D.seen, name)
		var fs []string
		for i := range si.Fields {
			si.Fields[i].S = c.sortOf(si.Fields[i].GT)
			fs = append(fs, fmt.Sprintf("(%s %s)", si.Fields[i].Acc, si.Fields[i].S))
		}
		c.D.add(name, fmt.Sprintf("(declare-datatypes ((%s 0)) (((mk_%s %s))))", name, name, strings.Join(fs, " ")))
	}
	return si
}

func (c *FnCtx) zeroOf(t types.Type) string {
	switch u := t.Underlying().(type) {
	case *types.Basic:
		if u.Info()&types.IsBoolean != 0 {
			return "false"
		}
		return "0"
	case *types.Interface:
		return "(mk_iface 0 0)"
	case *types.Slice:
		return "(mk_slice 0 0 0)"
	case *types.Struct:
		si := c.structSort(t)
		if len(si.Fields) == 0 {
			return "mk_" + si.SortName
		}
		var fs []string
		for _, f := range si.Fields {
			fs = append(fs, c.zeroOf(f.GT))
		}
		return sx("mk_"+si.SortName, fs...)
	case *types.Array:
		return fmt.Sprintf("((as const %s) %s)", c.sortOf(t), c.zeroOf(u.Elem()))
	}
	return "0"
}

// ---------- heap arrays ----------

func (c *FnCtx) heapArr(name string, s Sort) string {
	if old, ok := c.arrSorts[name]; ok {
		if old != s {
			panic(fmt.Sprintf("heap array %s used at sorts %s and %s", name, old, s))
		}
		return name
	}
	c.arrSorts[name] = s
	c.D.constant(name, s)
	return name
}

func (c *FnCtx) fieldArr(st types.Type, idx int) string {
	s := st.Underlying().(*types.Struct)
	return c.heapArr(fieldArrName(st, idx), arrSort(SInt, c.sortOf(s.Field(idx).Type())))
}
func (c *FnCtx) cellArr(t types.Type) string {
	return c.heapArr(cellArrName(t), arrSort(SInt, c.sortOf(t)))
}
func (c *FnCtx) backArr(elem types.Type) string {
	return c.heapArr(backArrName(elem), arrSort(SInt, arrSort(SInt, c.sortOf(elem))))
}
func (c *FnCtx) mapArrs(mt types.Type) (string, string) {
	m := mt.Underlying().(*types.Map)
	ks, vs := c.sortOf(m.Key()), c.sortOf(m.Elem())
	return c.heapArr(mapDomName(mt), arrSort(SInt, arrSort(ks, SBool))), c.heapArr(mapValName(mt), arrSort(SInt, arrSort(ks, vs)))
}

// ghost arrays declared in spec files
func (c *FnCtx) ghostArr(name string) (string, Sort, bool) {
	s, ok := c.V.DB.Ghosts[name]
	if !ok {
		return "", "", false
	}
	return c.heapArr(name, Sort(s)), Sort(s), true
}

// cur returns the current term of heap array name in state st.
func (c *FnCtx) arrIn(st *State, name string) string {
	if t, ok := st.arr[name]; ok {
		return t
	}
	if _, ok := c.arrSorts[name]; !ok {
		panic("undeclared heap array " + name)
	}
	return name
}

func (c *FnCtx) setArr(st *State, name, term string) {
	// name the new version to keep terms small
	v := c.freshConst(name, c.arrSorts[name])
	c.defs = append(c.defs, sEq(v, term))
	st.arr[name] = v
}

// ---------- locations ----------

func (c *FnCtx) ptrLoc(ref string, pointee types.Type, local bool) *Loc {
	switch u := pointee.Underlying().(type) {
	case *types.Struct:
		_ = u
		return &Loc{Ref: ref, S: c.sortOf(pointee), GT: pointee, Obj: true, Local: local}
	case *types.Array:
		return &Loc{Arr: c.backArr(u.Elem()), Ref: ref, S: c.sortOf(pointee), GT: pointee, Local: local}
	}
	return &Loc{Arr: c.cellArr(pointee), Ref: ref, S: c.sortOf(pointee), GT: pointee, Local: local}
}

func (c *FnCtx) locField(l *Loc, idx int) *Loc {
	st := l.GT.Underlying().(*types.Struct)
	ft := st.Field(idx).Type()
	if l.Obj {
		return &Loc{Arr: c.fieldArr(l.GT, idx), Ref: l.Ref, S: c.sortOf(ft), GT: ft, Local: l.Local}
	}
	si := c.structSort(l.GT)
	n := &Loc{Arr: l.Arr, Ref: l.Ref, Path: append(append([]Step(nil), l.Path...), Step{Field: idx, SI: si}), S: c.sortOf(ft), GT: ft, Local: l.Local}
	return n
}

func (c *FnCtx) locIndex(l *Loc, idx string, elem types.Type) *Loc {
	return &Loc{Arr: l.Arr, Ref: l.Ref, Path: append(append([]Step(nil), l.Path...), Step{IsIdx: true, Idx: idx}), S: c.sortOf(elem), GT: elem, Local: l.Local}
}

func (c *FnCtx) loadLoc(st *State, l *Loc) Val {
	if l.Obj {
		si := c.structSort(l.GT)
		if len(si.Fields) == 0 {
			return Val{T: "mk_" + si.SortName, S: si.sort(), GT: l.GT}
		}
		var fs []string
		for i := range si.Fields {
			fs = append(fs, sSel(c.arrIn(st, c.fieldArr(l.GT, i)), l.Ref))
		}
		return Val{T: sx("mk_"+si.SortName, fs...), S: si.sort(), GT: l.GT}
	}
	t := sSel(c.arrIn(st, l.Arr), l.Ref)
	for _, s := range l.Path {
		if s.IsIdx {
			t = sSel(t, s.Idx)
		} else {
			t = sx(s.SI.Fields[s.Field].Acc, t)
		}
	}
	return Val{T: t, S: l.S, GT: l.GT}
}

func (c *FnCtx) updPath(path []Step, cur, v string) string {
	if len(path) == 0 {
		return v
	}
	s := path[0]
	if s.IsIdx {
		return sStore(cur, s.Idx, c.updPath(path[1:], sSel(cur, s.Idx), v))
	}
	var fs []string
	for i, f := range s.SI.Fields {
		if i == s.Field {
			fs = append(fs, c.updPath(path[1:], sx(f.Acc, cur), v))
		} else {
			fs = append(fs, sx(f.Acc, cur))
		}
	}
	return sx("mk_"+s.SI.SortName, fs...)
}

func (c *FnCtx) storeLoc(st *State, l *Loc, v Val) {
	if l.Obj {
		si := c.structSort(l.GT)
		for i, f := range si.Fields {
			a := c.fieldArr(l.GT, i)
			c.setArr(st, a, sStore(c.arrIn(st, a), l.Ref, sx(f.Acc, v.T)))
		}
		return
	}
	cur := c.arrIn(st, l.Arr)
	c.setArr(st, l.Arr, sStore(cur, l.Ref, c.updPath(l.Path, sSel(cur, l.Ref), v.T)))
}

// locValue turns a location into a pointer value (the location escapes).
func (c *FnCtx) locValue(st *State, l *Loc, items *[]Item) Val {
	pt := types.NewPointer(l.GT)
	if len(l.Path) == 0 && (l.Obj || strings.HasPrefix(l.Arr, "C_") || strings.HasPrefix(l.Arr, "A_")) {
		return Val{T: l.Ref, S: SInt, GT: pt}
	}
	if len(l.Path) == 0 && strings.HasPrefix(l.Arr, "F_") {
		fn := "fref_" + l.Arr[2:]
		c.D.add(fn, fmt.Sprintf("(declare-fun %s (Int) Int)", fn))
		c.D.add(fn+"_inv", fmt.Sprintf("(declare-fun %s_inv (Int) Int)", fn))
		app := sx(fn, l.Ref)
		if mentionsBound(l.Ref) {
			c.addAxiom(fn+"_ax", fmt.Sprintf("(forall ((r Int)) (! (and (= (%s_inv (%s r)) r) (=> (not (= r 0)) (not (= (%s r) 0)))) :pattern ((%s r))))", fn, fn, fn, fn))
		} else if !c.grounded[app] {
			c.grounded[app] = true
			c.defs = append(c.defs, sAnd(sEq(sx(fn+"_inv", app), l.Ref), sImp(sNot(sEq(l.Ref, "0")), sNot(sEq(app, "0")))))
		}
		return Val{T: app, S: SInt, GT: pt}
	}
	// interior pointer into a slice element / nested value: box a snapshot
	if _, ok := l.GT.Underlying().(*types.Struct); ok {
		box := c.freshConst("box", SInt)
		val := c.loadLoc(st, l)
		si := c.structSort(l.GT)
		fs := []string{sNot(sEq(box, "0"))}
		for i, f := range si.Fields {
			fs = append(fs, sEq(sSel(c.arrIn(st, c.fieldArr(l.GT, i)), box), sx(f.Acc, val.T)))
		}
		*items = append(*items, Item{Kind: "assume", F: sAnd(fs...)})
		c.note("interior pointers to struct elements are passed as snapshots (callee must not write through them)")
		return Val{T: box, S: SInt, GT: pt}
	}
	box := c.freshConst("box", SInt)
	val := c.loadLoc(st, l)
	*items = append(*items, Item{Kind: "assume", F: sAnd(sNot(sEq(box, "0")), sEq(sSel(c.arrIn(st, c.cellArr(l.GT)), box), val.T))})
	c.note("interior pointers are passed as snapshots (callee must not write through them)")
	return Val{T: box, S: SInt, GT: pt}
}

var axiomTexts = map[string]string{}

func (c *FnCtx) addAxiom(name, text string) {
	c.D.add("ax:"+name, "(assert "+text+")")
}

// ---------- values ----------

func (c *FnCtx) regName(v ssa.Value) string {
	return "|" + c.pfx + v.Name() + "|"
}

func (c *FnCtx) constVal(k *ssa.Const) Val {
	t := k.Type()
	s := c.sortOf(t)
	if k.Value == nil {
		return Val{T: c.zeroOf(t), S: s, GT: t}
	}
	switch k.Value.Kind() {
	case constant.Bool:
		if constant.BoolVal(k.Value) {
			return Val{T: "true", S: SBool, GT: t}
		}
		return Val{T: "false", S: SBool, GT: t}
	case constant.Int:
		if n, ok := constant.Int64Val(k.Value); ok {
			return Val{T: sInt(n), S: SInt, GT: t}
		}
		if n, ok := constant.Uint64Val(k.Value); ok {
			return Val{T: fmt.Sprintf("%d", n), S: SInt, GT: t}
		}
	case constant.String:
		return Val{T: c.U.strLit(constant.StringVal(k.Value)), S: SInt, GT: t}
	}
	// floats etc: opaque but stable
	n := "|const:" + mangle(k.Value.ExactString()) + "|"
	c.D.constant(n, s)
	return Val{T: n, S: s, GT: t}
}

func (c *FnCtx) val(v ssa.Value) Val {
	switch x := v.(type) {
	case *ssa.Const:
		return c.constVal(x)
	case *ssa.Global:
		n := "|glob:" + x.Pkg.Pkg.Name() + "." + x.Name() + "|"
		c.D.constant(n, SInt)
		c.D.add("ax:"+n, fmt.Sprintf("(assert (> %s 0))", n))
		return Val{T: n, S: SInt, GT: x.Type()}
	case *ssa.Function:
		n := "|func:" + mangle(x.String()) + "|"
		c.D.constant(n, SInt)
		c.D.add("ax:"+n, fmt.Sprintf("(assert (> %s 0))", n))
		return Val{T: n, S: SInt, GT: x.Type()}
	case *ssa.Builtin:
		return Val{T: "0", S: SInt}
	}
	b, ok := c.env[v]
	if !ok {
		panic(fmt.Sprintf("%s: value %s (%T) used before definition", c.fn.Name(), v.Name(), v))
	}
	if b.IsLoc {
		return c.locValue(c.cur, b.L, c.curItems)
	}
	return b.V
}

// bind defines SSA register v as term.
func (c *FnCtx) bind(v ssa.Value, val Val) {
	if val.IsTuple() {
		c.env[v] = &Bind{V: val}
		return
	}
	n := c.regName(v)
	c.D.constant(n, val.S)
	c.defs = append(c.defs, sEq(n, val.T))
	val.T = n
	if val.GT == nil {
		val.GT = v.Type()
	}
	c.env[v] = &Bind{V: val}
}

// havocVal makes fresh unconstrained value(s) of Go type t and adds typing facts.
func (c *FnCtx) havocVal(base string, t types.Type, st *State, items *[]Item) Val {
	if tup, ok := t.(*types.Tuple); ok {
		var vs []Val
		for i := 0; i < tup.Len(); i++ {
			vs = append(vs, c.havocVal(fmt.Sprintf("%s_%d", base, i), tup.At(i).Type(), st, items))
		}
		if vs == nil {
			vs = []Val{}
		}
		return Val{Tup: vs, GT: t}
	}
	s := c.sortOf(t)
	n := c.freshConst(base, s)
	v := Val{T: n, S: s, GT: t}
	if f := c.typeFacts(v, st); f != "true" {
		*items = append(*items, Item{Kind: "assume", F: f})
	}
	return v
}

// typeFacts: facts that hold for every value of the static Go type (trusted: Go's type system).
func (c *FnCtx) typeFacts(v Val, st *State) string {
	if v.GT == nil {
		return "true"
	}
	switch u := v.GT.Underlying().(type) {
	case *types.Pointer, *types.Map, *types.Chan, *types.Signature:
		_ = u
		return sAnd(sx("<=", "0", v.T), sx("<", v.T, st.alloc))
	case *types.Slice:
		return sAnd(sx("<=", "0", sx("sref", v.T)), sx("<", sx("sref", v.T), st.alloc), sx("<=", "0", sx("soff", v.T)), sx("<=", "0", sx("slen", v.T)),
			sImp(sEq(sx("sref", v.T), "0"), sEq(sx("slen", v.T), "0")))
	case *types.Interface:
		ids, sealed := c.V.implementers(v.GT)
		if sealed {
			alts := []string{sEq(v.T, "(mk_iface 0 0)")}
			for _, id := range ids {
				alts = append(alts, sEq(sx("itag", v.T), sInt(int64(id))))
			}
			return sAnd(sOr(alts...), sx("<", sx("ipay", v.T), st.alloc), sx("<=", "0", sx("ipay", v.T)), sx("<=", "0", sx("itag", v.T)), c.noTypedNil(v.T))
		}
		extra := []string{sx("<=", "0", sx("itag", v.T)), sImp(sEq(sx("itag", v.T), "0"), sEq(sx("ipay", v.T), "0")), c.noTypedNil(v.T)}
		if it, ok := v.GT.Underlying().(*types.Interface); ok && !it.Empty() {
			// Go's type system: a value of a non-empty interface type never has a dynamic type that
			// does not implement it (in particular not int / string / bool)
			for _, bt := range []types.Type{types.Typ[types.Int], types.Typ[types.String], types.Typ[types.Bool]} {
				if !types.Implements(bt, it) {
					extra = append(extra, sNot(sEq(sx("itag", v.T), sInt(int64(c.U.tagOf(bt))))))
				}
			}
		}
		return sAnd(extra...)
	case *types.Basic:
		if u.Kind() == types.String {
			return sx("<=", "0", sx(c.ufun("strlen", []Sort{SInt}, SInt), v.T))
		}
		if u.Info()&types.IsUnsigned != 0 {
			return sx("<=", "0", v.T)
		}
	}
	return "true"
}

// noTypedNil: interface values never hold a nil pointer (global discipline: assumed wherever an
// interface value is obtained, checked at every MakeInterface of a pointer in the module).
func (c *FnCtx) noTypedNil(x string) string {
	c.ufun("ptrtag", []Sort{SInt}, SBool)
	c.usesPtrTag = true
	return sImp(sx("ptrtag", sx("itag", x)), sNot(sEq(sx("ipay", x), "0")))
}

// ix(off, i): position of element i of a slice with offset off. Uninterpreted with the defining
// axiom ix(a,b) = a+b so that quantifier triggers never contain arithmetic.
func (c *FnCtx) ix(off, i string) string {
	c.D.add("ix", "(declare-fun ix (Int Int) Int)")
	c.D.add("ax:ix", "(assert (forall ((a Int) (b Int)) (! (= (ix a b) (+ a b)) :pattern ((ix a b)))))")
	return sx("ix", off, i)
}

func (c *FnCtx) ufun(name string, args []Sort, res Sort) string {
	var as []string
	for _, a := range args {
		as = append(as, string(a))
	}
	c.D.add(name, fmt.Sprintf("(declare-fun %s (%s) %s)", name, strings.Join(as, " "), res))
	return name
}

// ---------- obligations ----------

func (c *FnCtx) posOf(in ssa.Instruction) string {
	if in == nil {
		return ""
	}
	p := in.Pos()
	if p == token.NoPos {
		return ""
	}
	pp := c.V.Prog.Fset.Position(p)
	return fmt.Sprintf("%s:%d", strings.TrimPrefix(pp.Filename, c.V.RepoDir+"/"), pp.Line)
}

func (c *FnCtx) fnKey() string { return c.V.FuncKey[c.fn] }

func (c *FnCtx) assert(items *[]Item, kind, stem, text, f string, in ssa.Instruction, tags []string, safety bool) *Obligation {
	base := strings.Replace(c.fnKey(), ":", ".", 1) + "/" + stem
	c.nobs[base]++
	name := base
	if !strings.Contains(stem, "#") {
		name = fmt.Sprintf("%s#%d", base, c.nobs[base])
	} else if c.nobs[base] > 1 {
		name = fmt.Sprintf("%s.%d", base, c.nobs[base])
	}
	if text != "" {
		name += ":" + strings.Join(strings.Fields(text), " ")
	}
	ob := &Obligation{Name: name, Kind: kind, Fn: c.fnKey(), Text: text, Pos: c.posOf(in), Tags: tags, Safety: safety}
	ob.Sel = fmt.Sprintf("sel_%d", len(c.obs))
	c.D.constant(ob.Sel, SBool)
	c.obs = append(c.obs, ob)
	*items = append(*items, Item{Kind: "assert", F: f, Ob: ob})
	return ob
}

// cover adds a reachability probe: the obligation "false here" must NOT be provable.
func (c *FnCtx) cover(items *[]Item, where string) {
	name := strings.Replace(c.fnKey(), ":", ".", 1) + "/cover:" + where
	ob := &Obligation{Name: name, Kind: "cover", Fn: c.fnKey()}
	ob.Sel = fmt.Sprintf("sel_%d", len(c.obs))
	c.D.constant(ob.Sel, SBool)
	c.obs = append(c.obs, ob)
	*items = append(*items, Item{Kind: "cover", Ob: ob})
}

func (c *FnCtx) assume(items *[]Item, f string) {
	if f != "true" && f != "" {
		*items = append(*items, Item{Kind: "assume", F: f})
	}
}

func (c *FnCtx) srcText(in ssa.Instruction) string {
	// short readable rendering of the instruction for obligation names
	if v, ok := in.(ssa.Value); ok {
		s := in.String()
		_ = v
		if len(s) > 60 {
			s = s[:60]
		}
		return s
	}
	s := in.String()
	if len(s) > 60 {
		s = s[:60]
	}
	return s
}

// ---------- CFG: loops ----------

func (c *FnCtx) findLoops() {
	fn := c.fn
	// back edges: p -> h where h dominates p
	heads := map[*ssa.BasicBlock][]*ssa.BasicBlock{}
	for _, b := range fn.Blocks {
		for _, s := range b.Succs {
			if s.Dominates(b) {
				heads[s] = append(heads[s], b)
			}
		}
	}
	var hs []*ssa.BasicBlock
	for h := range heads {
		hs = append(hs, h)
	}
	sort.Slice(hs, func(i, j int) bool { return hs[i].Index < hs[j].Index })
	for i, h := range hs {
		l := &Loop{Header: h, Blocks: map[*ssa.BasicBlock]bool{h: true}, Mods: map[string]bool{}, Ord: i + 1}
		var stack []*ssa.BasicBlock
		for _, p := range heads[h] {
			if !l.Blocks[p] {
				l.Blocks[p] = true
				stack = append(stack, p)
			}
		}
		for len(stack) > 0 {
			b := stack[len(stack)-1]
			stack = stack[:len(stack)-1]
			for _, p := range b.Preds {
				if !l.Blocks[p] {
					l.Blocks[p] = true
					stack = append(stack, p)
				}
			}
		}
		c.loops[h] = l
		c.loopList = append(c.loopList, l)
	}
	// order loops by source position of header for stable ordinals
	sort.SliceStable(c.loopList, func(i, j int) bool {
		// go/ssa creates the blocks of a loop statement when it reaches the statement, so header
		// block indices follow the source order of the loop statements (outer before inner)
		return c.loopList[i].Header.Index < c.loopList[j].Header.Index
	})
	for i, l := range c.loopList {
		l.Ord = i + 1
		if os.Getenv("GOVC_DEBUG") != "" {
			fmt.Fprintf(os.Stderr, "DEBUG %s loop %d header block %d pos %d nblocks %d\n", c.fnKey(), l.Ord, l.Header.Index, c.loopPos(l), len(l.Blocks))
		}
		inLoop := func(in ssa.Instruction) bool { return l.Blocks[in.Block()] }
		for b := range l.Blocks {
			for _, in := range b.Instrs {
				c.V.instrMods(in, inLoop, l.Mods)
			}
		}
		c.preciseLoopMods(l)
		c.autoInvariants(l)
		c.autoFrameInvariants(l)
		// labels: block comment of header e.g. "for.loop", "rangeindex.loop"; source label via DebugRef is not available, so
		// labelled loops are matched through the contract key being the label of a `continue`/`break` target.
		if c.con != nil {
			key := fmt.Sprintf("%d", l.Ord)
			l.Invs = append(l.Invs, c.con.Invs[key]...)
			if ms, ok := c.con.LoopMods[key]; ok {
				for _, m := range ms {
					l.Mods[m] = true
				}
			}
		}
	}
}

func (c *FnCtx) loopPos(l *Loop) int {
	// smallest valid position of any instruction in the loop's header or body
	best := int(^uint(0) >> 1)
	for b := range l.Blocks {
		for _, in := range b.Instrs {
			if p := in.Pos(); p != token.NoPos && int(p) < best {
				best = int(p)
			}
		}
	}
	return best
}

func isBackEdge(from, to *ssa.BasicBlock) bool { return to.Dominates(from) }

func (c *FnCtx) rpo() []*ssa.BasicBlock {
	seen := map[*ssa.BasicBlock]bool{}
	var post []*ssa.BasicBlock
	var dfs func(b *ssa.BasicBlock)
	dfs = func(b *ssa.BasicBlock) {
		seen[b] = true
		for _, s := range b.Succs {
			if !seen[s] && !isBackEdge(b, s) {
				dfs(s)
			}
		}
		post = append(post, b)
	}
	dfs(c.fn.Blocks[0])
	for i, j := 0, len(post)-1; i < j; i, j = i+1, j-1 {
		post[i], post[j] = post[j], post[i]
	}
	return post
}

func okName(b *ssa.BasicBlock) string { return fmt.Sprintf("ok_%d", b.Index) }

// ---------- main entry ----------

type FnVC struct {
	Fn               *ssa.Function
	Key              string
	Decls            string   // declarations and ground axioms
	Defs             []string // global definitional equalities
	Order            []*ssa.BasicBlock
	BVC              map[*ssa.BasicBlock]*BlockVC
	Obs              []*Obligation
	Assumptions      []string
	UsedLib          []string
	Unsupported      []string
	NBlocks, NInstrs int
	Mismatch         string
}

func (c *FnCtx) generate() (vc *FnVC, err error) {
	defer func() {
		if r := recover(); r != nil {
			msg := fmt.Sprint(r)
			if strings.HasPrefix(msg, "spec:") && os.Getenv("GOVC_STRICT_SPEC") == "" {
				// the contract no longer fits the code (a name it mentions is gone, a type changed):
				// the function cannot be shown to meet its contract; report that as a failed obligation.
				ob := &Obligation{Name: strings.Replace(c.fnKey(), ":", ".", 1) + "/contract-mismatch", Kind: "contract-mismatch", Fn: c.fnKey(), Text: msg, Safety: true}
				vc = &FnVC{Fn: c.fn, Key: c.fnKey(), Obs: []*Obligation{ob}, Mismatch: msg}
				err = nil
				return
			}
			err = fmt.Errorf("%s: %v", c.fnKey(), r)
		}
	}()
	fn := c.fn
	c.findLoops()
	c.collectNames()

	// entry state
	alloc0 := "alloc0"
	c.D.constant(alloc0, SInt)
	c.entry = &State{arr: map[string]string{}, alloc: alloc0}
	entryItems := []Item{{Kind: "assume", F: sx("<", "0", alloc0)}}
	c.cur = c.entry
	c.curItems = &entryItems

	// parameters and free variables
	for _, p := range fn.Params {
		c.bindParam(p, &entryItems)
	}
	for _, p := range fn.FreeVars {
		c.bindParam(p, &entryItems)
	}
	// default non-nil preconditions and declared requires
	c.entryAssumptions(&entryItems)
	c.cover(&entryItems, "entry")

	order := c.rpo()
	for _, b := range order {
		c.translateBlock(b, entryItems)
	}
	if c.con != nil {
		for key := range c.con.AtCall {
			if !c.atNewSeen["call:"+key] {
				panic("spec: `atcall " + key + "` in the contract of " + c.fnKey() + " matches no call in the function")
			}
		}
		for key := range c.con.AtStore {
			if !c.atNewSeen["store:"+key] {
				panic("spec: `atstore " + key + "` in the contract of " + c.fnKey() + " matches no store to that field in the function")
			}
		}
		for tn := range c.con.AtNew {
			if !c.atNewSeen[tn] {
				panic("spec: `atnew " + tn + "` in the contract of " + c.fnKey() + " matches no allocation of that type in the function")
			}
		}
	}
	// assemble
	for _, b := range order {
		c.D.constant(okName(b), SBool)
	}
	c.addSpecAxioms()
	if c.D.seen["strlen"] {
		// lengths of the string literals of the program
		for id, lit := range c.U.strs {
			c.defs = append(c.defs, fmt.Sprintf("(= (strlen %d) %d)", id, len(lit)))
		}
	}
	if c.usesPtrTag {
		for id, t := range c.U.typeByID {
			if t == nil {
				c.defs = append(c.defs, "(not (ptrtag 0))")
				continue
			}
			_, isPtr := t.Underlying().(*types.Pointer)
			if isPtr {
				c.defs = append(c.defs, fmt.Sprintf("(ptrtag %d)", id))
			} else {
				c.defs = append(c.defs, fmt.Sprintf("(not (ptrtag %d))", id))
			}
		}
	}
	vc = &FnVC{Fn: fn, Key: c.fnKey(), Decls: c.D.String(), Defs: c.defs, Order: order, BVC: c.bvc, Obs: c.obs, NBlocks: len(fn.Blocks), Unsupported: c.unsupported}
	for a := range c.assumptions {
		vc.Assumptions = append(vc.Assumptions, a)
	}
	sort.Strings(vc.Assumptions)
	for a := range c.usedLib {
		vc.UsedLib = append(vc.UsedLib, a)
	}
	sort.Strings(vc.UsedLib)
	for _, b := range fn.Blocks {
		vc.NInstrs += len(b.Instrs)
	}
	return vc, nil
}

func (c *FnCtx) bindParam(p ssa.Value, items *[]Item) {
	t := p.Type()
	s := c.sortOf(t)
	n := "|" + c.pfx + "p:" + p.Name() + "|"
	c.D.constant(n, s)
	v := Val{T: n, S: s, GT: t}
	c.env[p] = &Bind{V: v}
	c.assume(items, c.typeFacts(v, c.entry))
}

func (c *FnCtx) collectNames() {
	fn := c.fn
	for _, p := range fn.Params {
		c.names[p.Name()] = p
	}
	for _, p := range fn.FreeVars {
		if strings.HasSuffix(fn.Name(), "$bound") {
			c.names[p.Name()] = p // bound-method closure: the receiver value itself
		}
	}
	for _, b := range fn.Blocks {
		for _, in := range b.Instrs {
			switch x := in.(type) {
			case *ssa.DebugRef:
				if id, ok := x.Expr.(interface{ String() string }); ok {
					_ = id
				}
				if x.IsAddr {
					continue
				}
				if obj := x.Object(); obj != nil {
					if _, isVar := obj.(*types.Var); isVar {
						c.nameAll[obj.Name()] = append(c.nameAll[obj.Name()], x.X)
					}
				}
			case *ssa.Phi:
				if x.Comment != "" {
					c.nameAll[x.Comment] = append(c.nameAll[x.Comment], x)
				}
			case *ssa.Alloc:
				if x.Comment != "" {
					c.nameAll["&"+x.Comment] = append(c.nameAll["&"+x.Comment], x)
				}
			}
		}
	}
}

// autoInvariants infers bounds for monotone integer loop counters:
// a header phi whose back-edge values are all phi+k (k>0) satisfies phi >= init,
// with phi-k it satisfies phi <= init. The inferred invariants are asserted and
// checked like written ones (obligations loopN/inv#auto...).
func (c *FnCtx) autoInvariants(l *Loop) {
	h := l.Header
	n := 0
	for _, in := range h.Instrs {
		phi, ok := in.(*ssa.Phi)
		if !ok {
			break
		}
		b, isBasic := phi.Type().Underlying().(*types.Basic)
		if !isBasic || b.Info()&types.IsInteger == 0 {
			continue
		}
		dir := 0
		var inits []ssa.Value
		okShape := true
		for i, p := range h.Preds {
			e := phi.Edges[i]
			if isBackEdge(p, h) {
				bo, ok := e.(*ssa.BinOp)
				if !ok || bo.X != ssa.Value(phi) {
					okShape = false
					break
				}
				k, ok := bo.Y.(*ssa.Const)
				if !ok || k.Int64() <= 0 {
					okShape = false
					break
				}
				d := 0
				if bo.Op == token.ADD {
					d = 1
				} else if bo.Op == token.SUB {
					d = -1
				}
				if d == 0 || (dir != 0 && dir != d) {
					okShape = false
					break
				}
				dir = d
			} else {
				inits = append(inits, e)
			}
		}
		if !okShape || dir == 0 || len(inits) != 1 {
			continue
		}
		init := inits[0]
		if in, ok := init.(ssa.Instruction); ok && l.Blocks[in.Block()] {
			continue
		}
		// range-over-slice loops: the hidden index also satisfies phi+1 <= len
		if phi.Comment == "rangeindex" && dir > 0 {
			if iff, ok := h.Instrs[len(h.Instrs)-1].(*ssa.If); ok {
				if cmp, ok := iff.Cond.(*ssa.BinOp); ok && cmp.Op == token.LSS {
					if inc, ok := cmp.X.(*ssa.BinOp); ok && inc.X == ssa.Value(phi) {
						if lv, ok := cmp.Y.(ssa.Instruction); !ok || !l.Blocks[lv.Block()] {
							n++
							phiV, lenV := ssa.Value(phi), cmp.Y
							cl := &Clause{Kind: "invariant", Text: "auto: range index + 1 <= len", Loop: fmt.Sprint(l.Ord), Ord: 100 + n}
							cl.Auto = func(get func(v interface{}) string) string {
								return sx("<=", sx("+", get(phiV), "1"), get(lenV))
							}
							l.Invs = append(l.Invs, cl)
						}
					}
				}
			}
		}
		n++
		op := ">="
		if dir < 0 {
			op = "<="
		}
		phiV, initV := ssa.Value(phi), init
		cl := &Clause{Kind: "invariant", Text: fmt.Sprintf("auto: %s %s %s", exprText(phi), op, exprText(init)), Loop: fmt.Sprint(l.Ord), Ord: 100 + n}
		cl.Auto = func(get func(v interface{}) string) string {
			return sx(op, get(phiV), get(initV))
		}
		l.Invs = append(l.Invs, cl)
	}
}

// autoFrameInvariants: inside a function with a precise modifies clause every loop keeps the
// frame: outside the declared locations the arrays it modifies are as at function entry.
func (c *FnCtx) autoFrameInvariants(l *Loop) {
	if c.con == nil || !c.con.HasMod {
		return
	}
	declared := c.declaredMods()
	k := 0
	var names []string
	for n := range l.Mods {
		if n != "*" {
			names = append(names, n)
		}
	}
	sort.Strings(names)
	for _, n := range names {
		ms := declared[n]
		n := n
		k++
		cl := &Clause{Kind: "invariant", Text: "auto frame: " + n, Loop: fmt.Sprint(l.Ord), Ord: 200 + k}
		cl.Auto = func(get func(v interface{}) string) string { return "" }
		cl.AutoState = func(st *State) string {
			if !c.ensureArr(n) {
				return "true"
			}
			f, ok := c.frameFormula(n, ms, st)
			if !ok {
				return "true"
			}
			return f
		}
		l.Invs = append(l.Invs, cl)
	}
}

// preciseLoopMods: an array that the loop changes only by element stores into loop-invariant
// slices (x[i] = v), field stores on loop-invariant objects (p.f = v) or updates of loop-invariant
// maps is havocked only at those bases at the loop header.
func (c *FnCtx) preciseLoopMods(l *Loop) {
	inLoop := func(in ssa.Instruction) bool { return l.Blocks[in.Block()] }
	invariantVal := func(v ssa.Value) bool {
		switch x := v.(type) {
		case *ssa.Parameter, *ssa.FreeVar, *ssa.Const, *ssa.Global:
			return true
		default:
			if in, ok := x.(ssa.Instruction); ok {
				return !l.Blocks[in.Block()]
			}
		}
		return false
	}
	precise := map[string][]PreciseMod{}
	imprecise := map[string]bool{}
	for b := range l.Blocks {
		for _, in := range b.Instrs {
			one := map[string]bool{}
			c.V.instrMods(in, inLoop, one)
			if len(one) == 0 {
				continue
			}
			handled := false
			if st, ok := in.(*ssa.Store); ok {
				switch a := st.Addr.(type) {
				case *ssa.IndexAddr:
					if sl, isSlice := a.X.Type().Underlying().(*types.Slice); isSlice && invariantVal(a.X) {
						n := backArrName(sl.Elem())
						precise[n] = append(precise[n], PreciseMod{Arr: n, Base: a.X, Slice: true})
						handled = true
					}
				case *ssa.FieldAddr:
					if pt := derefType(a.X.Type()); pt != nil && invariantVal(a.X) {
						if _, isFA := a.X.(*ssa.FieldAddr); !isFA {
							if _, isIA := a.X.(*ssa.IndexAddr); !isIA {
								n := fieldArrName(pt, a.Field)
								precise[n] = append(precise[n], PreciseMod{Arr: n, Base: a.X})
								handled = true
							}
						}
					}
				}
			}
			if !handled {
				for n := range one {
					imprecise[n] = true
				}
			}
		}
	}
	for n, pms := range precise {
		if imprecise[n] || !l.Mods[n] {
			continue
		}
		l.PMods = append(l.PMods, pms...)
	}
}
