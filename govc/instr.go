package main

import (
	"fmt"
	"go/token"
	"go/types"
	"strings"

	"golang.org/x/tools/go/ssa"
)

func (c *FnCtx) isLocal(v ssa.Value) bool {
	return localBase(v, func(ssa.Instruction) bool { return true })
}

// mergeStates computes the in-state of block b from its forward predecessors,
// adding equalities on the corresponding exits.
func (c *FnCtx) inState(b *ssa.BasicBlock) *State {
	type predExit struct {
		st *State
		ex *Exit
	}
	var pes []predExit
	for _, p := range b.Preds {
		if isBackEdge(p, b) {
			continue
		}
		pv := c.bvc[p]
		if pv == nil || !pv.Done {
			continue // unreachable predecessor
		}
		for i := range pv.Exits {
			if pv.Exits[i].Target == b {
				pes = append(pes, predExit{pv.Out, &pv.Exits[i]})
			}
		}
	}
	if len(pes) == 0 {
		panic(fmt.Sprintf("block %d has no processed predecessor", b.Index))
	}
	if len(pes) == 1 {
		return pes[0].st.clone()
	}
	st := &State{arr: map[string]string{}}
	names := map[string]bool{}
	for _, pe := range pes {
		for n := range pe.st.arr {
			names[n] = true
		}
	}
	for n := range names {
		first := c.arrIn(pes[0].st, n)
		same := true
		for _, pe := range pes[1:] {
			if c.arrIn(pe.st, n) != first {
				same = false
			}
		}
		if same {
			st.arr[n] = first
			continue
		}
		nv := c.freshConst(fmt.Sprintf("%s@%d", n, b.Index), c.arrSorts[n])
		st.arr[n] = nv
		for _, pe := range pes {
			pe.ex.Items = append(pe.ex.Items, Item{Kind: "assume", F: sEq(nv, c.arrIn(pe.st, n))})
		}
	}
	first := pes[0].st.alloc
	same := true
	for _, pe := range pes[1:] {
		if pe.st.alloc != first {
			same = false
		}
	}
	if same {
		st.alloc = first
	} else {
		nv := c.freshConst(fmt.Sprintf("alloc@%d", b.Index), SInt)
		st.alloc = nv
		for _, pe := range pes {
			pe.ex.Items = append(pe.ex.Items, Item{Kind: "assume", F: sEq(nv, pe.st.alloc)})
		}
	}
	return st
}

func (c *FnCtx) translateBlock(b *ssa.BasicBlock, entryItems []Item) {
	bv := &BlockVC{}
	c.bvc[b] = bv
	var st *State
	if b.Index == 0 {
		st = c.entry.clone()
		bv.Items = append(bv.Items, entryItems...)
	} else {
		st = c.inState(b)
	}
	c.cur = st
	c.curItems = &bv.Items
	c.curBlock = b
	loop := c.loops[b]
	if loop != nil {
		// havoc what the loop modifies
		if loop.Mods["*"] {
			for n := range arrReg {
				c.ensureArr(n)
			}
			for n := range c.arrSorts {
				st.arr[n] = c.freshConst(fmt.Sprintf("%s@L%d", n, b.Index), c.arrSorts[n])
			}
		}
		preciseArr := map[string]bool{}
		for _, pm := range loop.PMods {
			preciseArr[pm.Arr] = true
		}
		for n := range loop.Mods {
			if n == "*" || !c.ensureArr(n) || preciseArr[n] {
				continue
			}
			st.arr[n] = c.freshConst(fmt.Sprintf("%s@L%d", n, b.Index), c.arrSorts[n])
		}
		for _, pm := range loop.PMods {
			if !c.ensureArr(pm.Arr) {
				continue
			}
			base := c.val(pm.Base)
			idx := base.T
			if pm.Slice {
				idx = sx("sref", base.T)
			}
			fv := c.freshConst(fmt.Sprintf("%s@L%d.e", pm.Arr, b.Index), elemSortOf(c.arrSorts[pm.Arr]))
			c.setArr(st, pm.Arr, sStore(c.arrIn(st, pm.Arr), idx, fv))
		}
		na := c.freshConst(fmt.Sprintf("alloc@L%d", b.Index), SInt)
		c.assume(&bv.Items, sx("<=", st.alloc, na))
		st.alloc = na
	}
	bv.In = st.clone()
	// phis
	for _, in := range b.Instrs {
		phi, ok := in.(*ssa.Phi)
		if !ok {
			break
		}
		s := c.sortOf(phi.Type())
		n := c.regName(phi)
		c.D.constant(n, s)
		v := Val{T: n, S: s, GT: phi.Type()}
		c.env[phi] = &Bind{V: v}
	}
	for _, in := range b.Instrs {
		phi, ok := in.(*ssa.Phi)
		if !ok {
			break
		}
		v := c.env[phi].V
		if loop != nil {
			c.assume(&bv.Items, c.typeFacts(v, st))
			continue
		}
		for i, p := range b.Preds {
			pv := c.bvc[p]
			if pv == nil || !pv.Done {
				continue
			}
			for k := range pv.Exits {
				if pv.Exits[k].Target == b {
					// evaluate incoming value in the predecessor's context
					save, saveItems := c.cur, c.curItems
					c.cur, c.curItems = pv.Out, &pv.Exits[k].Items
					inc := c.val(phi.Edges[i])
					c.cur, c.curItems = save, saveItems
					pv.Exits[k].Items = append(pv.Exits[k].Items, Item{Kind: "assume", F: sEq(v.T, inc.T)})
				}
			}
		}
	}
	if loop != nil {
		// arrays that the lazily-declared mods did not know about at this point are handled by
		// re-checking at the end (see lateLoopCheck).
		for _, inv := range loop.Invs {
			f := c.trInvariant(loop, inv, st, nil, nil)
			c.assume(&bv.Items, f)
		}
		c.cover(&bv.Items, fmt.Sprintf("loop%d", loop.Ord))
	}
	for _, in := range b.Instrs {
		if _, ok := in.(*ssa.Phi); ok {
			continue
		}
		c.instr(in, bv)
	}
	bv.Out = st
	bv.Done = true
	for i := range bv.Exits {
		ex := &bv.Exits[i]
		if ex.Target == nil {
			continue
		}
		for _, fr := range c.filling {
			if fr.mk.Block().Dominates(b) && !fr.mk.Block().Dominates(ex.Target) {
				c.assert(&ex.Items, "nilelem", "nilelem", "make([]"+tstr(fr.et)+", n) filled when leaving its scope", c.filledFormula(st, fr), nil, nil, true)
			}
		}
		for _, pi := range c.pendingInv {
			ab := pi.alloc.(*ssa.Alloc).Block()
			if ab.Dominates(b) && !ab.Dominates(ex.Target) {
				save, saveItems := c.cur, c.curItems
				c.cur, c.curItems = st, &ex.Items
				ob := c.assert(&ex.Items, "fieldinv", "fieldinv", pi.fi.Type+"."+pi.fi.Field+" (object constructed here, when leaving its scope)", c.pendingInvFormula(st, pi), nil, nil, true)
				ob.Text = pi.fi.Text
				c.cur, c.curItems = save, saveItems
			}
		}
	}
	// invariants on edges into loop headers
	for i := range bv.Exits {
		ex := &bv.Exits[i]
		if ex.Target == nil {
			continue
		}
		tl := c.loops[ex.Target]
		if tl == nil {
			continue
		}
		back := isBackEdge(b, ex.Target)
		c.assertInvariants(tl, b, ex, st, back)
		if back {
			ex.Target = nil
		}
	}
}

// assertInvariants asserts the invariants of loop tl on the edge from b.
func (c *FnCtx) assertInvariants(tl *Loop, from *ssa.BasicBlock, ex *Exit, st *State, back bool) {
	// incoming phi values on this edge
	sub := map[ssa.Value]Val{}
	predIdx := -1
	for i, p := range tl.Header.Preds {
		if p == from {
			predIdx = i
		}
	}
	save, saveItems := c.cur, c.curItems
	c.cur, c.curItems = st, &ex.Items
	for _, in := range tl.Header.Instrs {
		phi, ok := in.(*ssa.Phi)
		if !ok {
			break
		}
		sub[phi] = c.val(phi.Edges[predIdx])
	}
	for _, inv := range tl.Invs {
		if !clauseActive(inv, c.prop) {
			continue
		}
		which := "entry"
		if back {
			which = "preserved@" + blockLabel(from)
		}
		if inv.Auto != nil {
			f := c.trInvariant(tl, inv, st, sub, &ex.Items)
			stem := fmt.Sprintf("loop%d/inv#%d/%s", tl.Ord, inv.Ord, which)
			c.assert(&ex.Items, "invariant", stem, "", f, nil, inv.Tags, len(inv.Tags) == 0).Text = inv.Text
			continue
		}
		parts := c.V.DB.splitConj(inv.E, 0)
		for pi, pe := range parts {
			piece := &Clause{Kind: inv.Kind, Tags: inv.Tags, Text: inv.Text, E: pe, Loop: inv.Loop, Ord: inv.Ord}
			f := c.trInvariant(tl, piece, st, sub, &ex.Items)
			stem := fmt.Sprintf("loop%d/inv#%d/%s", tl.Ord, inv.Ord, which)
			if len(parts) > 1 {
				stem = fmt.Sprintf("loop%d/inv#%d.%d/%s", tl.Ord, inv.Ord, pi+1, which)
			}
			c.assert(&ex.Items, "invariant", stem, "", f, nil, inv.Tags, len(inv.Tags) == 0).Text = inv.Text
		}
	}
	c.cur, c.curItems = save, saveItems
}

func blockLabel(b *ssa.BasicBlock) string {
	return fmt.Sprintf("%d.%s", b.Index, b.Comment)
}

func (c *FnCtx) unsupp(in ssa.Instruction, why string) {
	msg := fmt.Sprintf("%s: %s", c.posOf(in), why)
	c.unsupported = append(c.unsupported, msg)
	c.assert(c.curItems, "unsupported", "unsupported", why, "false", in, nil, true)
}

func (c *FnCtx) nilCheck(ref string, in ssa.Instruction, what string) {
	c.assert(c.curItems, "nilderef", "nilderef", what, sNot(sEq(ref, "0")), in, nil, true)
}

// addrLoc converts an address-valued SSA value to a location, emitting the nil check.
func (c *FnCtx) addrLoc(a ssa.Value, in ssa.Instruction) *Loc {
	if g, ok := a.(*ssa.Global); ok {
		ref := c.val(g)
		return c.ptrLoc(ref.T, derefType(g.Type()), false)
	}
	b := c.env[a]
	if b == nil {
		panic(fmt.Sprintf("address %s undefined", a.Name()))
	}
	if b.IsLoc {
		return b.L
	}
	local := c.isLocal(a)
	if !local {
		c.nilCheck(b.V.T, in, exprText(a))
	}
	return c.ptrLoc(b.V.T, derefType(a.Type()), local)
}

func exprText(v ssa.Value) string {
	switch x := v.(type) {
	case *ssa.Parameter:
		return x.Name()
	case *ssa.FreeVar:
		return x.Name()
	case *ssa.FieldAddr:
		st := derefType(x.X.Type()).Underlying().(*types.Struct)
		return exprText(x.X) + "." + st.Field(x.Field).Name()
	case *ssa.UnOp:
		if x.Op == token.MUL {
			return exprText(x.X)
		}
	case *ssa.Alloc:
		return x.Comment
	case *ssa.Extract:
		return fmt.Sprintf("%s#%d", exprText(x.Tuple), x.Index)
	case *ssa.Call:
		if f := x.Call.StaticCallee(); f != nil {
			return f.Name() + "()"
		}
		if x.Call.IsInvoke() {
			return exprText(x.Call.Value) + "." + x.Call.Method.Name() + "()"
		}
	case *ssa.TypeAssert:
		return exprText(x.X) + ".(" + tstr(x.AssertedType) + ")"
	case *ssa.IndexAddr:
		return exprText(x.X) + "[" + exprText(x.Index) + "]"
	case *ssa.Phi:
		return x.Comment
	case *ssa.Const:
		return x.Name()
	case *ssa.Lookup:
		return exprText(x.X) + "[" + exprText(x.Index) + "]"
	case *ssa.MakeInterface:
		return exprText(x.X)
	case *ssa.ChangeInterface:
		return exprText(x.X)
	case *ssa.Field:
		return exprText(x.X) + fmt.Sprintf(".#%d", x.Field)
	}
	return v.Name()
}

func (c *FnCtx) allocRef(base string) string {
	st := c.cur
	ref := c.freshConst(base, SInt)
	c.defs = append(c.defs, sEq(ref, st.alloc))
	na := c.freshConst("alloc", SInt)
	c.defs = append(c.defs, sEq(na, sx("+", st.alloc, "1")))
	st.alloc = na
	return ref
}

func (c *FnCtx) instr(in ssa.Instruction, bv *BlockVC) {
	st := c.cur
	switch x := in.(type) {
	case *ssa.DebugRef:
	case *ssa.Alloc:
		ref := c.allocRef("new_" + mangle(x.Comment))
		pt := derefType(x.Type())
		l := c.ptrLoc(ref, pt, true)
		c.storeLoc(st, l, Val{T: c.zeroOf(pt), S: c.sortOf(pt), GT: pt})
		c.env[x] = &Bind{V: Val{T: ref, S: SInt, GT: x.Type()}}
		c.checkAllocFieldInvs(x, ref)
		if c.con != nil && c.con.AtNew != nil {
			tn := tstr(pt)
			if i := strings.LastIndex(tn, "."); i >= 0 {
				tn = tn[i+1:]
			}
			matched := false
			for _, cl := range c.con.AtNew[tn] {
				matched = true
				if !clauseActive(cl, c.prop) {
					continue
				}
				env := c.specEnvFor(c.cur, c.entry, nil)
				f := env.trGoal(cl.E)
				c.flushFacts(env)
				ob := c.assert(c.curItems, "requires", fmt.Sprintf("atnew:%s#%d", tn, cl.Ord), "", f, x, cl.Tags, len(cl.Tags) == 0)
				ob.Text = cl.Text
			}
			if matched {
				c.atNewSeen[tn] = true
			}
		}
		for _, ni := range c.V.DB.NewInvs {
			if tstr(pt) == ni.Type {
				env := &SEnv{c: c, st: c.cur, old: c.entry, vars: map[string]Val{"v": {T: ref, S: SInt, GT: x.Type()}}, bound: map[string]bool{}}
				c.assume(c.curItems, env.trAssume(ni.E))
				c.note("zero value of " + ni.Type + ": " + ni.Text)
			}
		}
	case *ssa.FieldAddr:
		base := c.addrLoc(x.X, in)
		c.env[x] = &Bind{IsLoc: true, L: c.locField(base, x.Field)}
	case *ssa.IndexAddr:
		idx := c.val(x.Index)
		switch t := x.X.Type().Underlying().(type) {
		case *types.Slice:
			s := c.val(x.X)
			c.assert(c.curItems, "index", "index", exprText(x.X)+"["+exprText(x.Index)+"]", sAnd(sx("<=", "0", idx.T), sx("<", idx.T, sx("slen", s.T))), in, nil, true)
			l := &Loc{Arr: c.backArr(t.Elem()), Ref: sx("sref", s.T), S: c.sortOf(types.NewArray(t.Elem(), 0)), GT: t.Elem(), Local: c.isLocal(x.X)}
			c.env[x] = &Bind{IsLoc: true, L: c.locIndex(l, c.ix(sx("soff", s.T), idx.T), t.Elem())}
		case *types.Pointer:
			at := t.Elem().Underlying().(*types.Array)
			base := c.addrLoc(x.X, in)
			if k, ok := x.Index.(*ssa.Const); !ok || k.Int64() < 0 || k.Int64() >= at.Len() {
				c.assert(c.curItems, "index", "index", exprText(x.X)+"["+exprText(x.Index)+"]", sAnd(sx("<=", "0", idx.T), sx("<", idx.T, sInt(at.Len()))), in, nil, true)
			}
			c.env[x] = &Bind{IsLoc: true, L: c.locIndex(base, idx.T, at.Elem())}
		default:
			c.unsupp(in, "IndexAddr on "+tstr(x.X.Type()))
		}
	case *ssa.UnOp:
		c.unop(x)
	case *ssa.Store:
		l := c.addrLoc(x.Addr, in)
		v := c.val(x.Val)
		if g, ok := x.Addr.(*ssa.Global); ok {
			for _, gi := range c.V.DB.GlobalInvs {
				if gi.Field == g.Name() {
					env := &SEnv{c: c, st: c.cur, old: c.entry, vars: map[string]Val{"v": v}, bound: map[string]bool{}}
					ob := c.assert(c.curItems, "globalinv", "globalinv", g.Name(), env.trGoal(gi.E), in, nil, true)
					ob.Text = gi.Text
				}
			}
		}
		c.checkFieldInv(x, l, v)
		if fa, ok := x.Addr.(*ssa.FieldAddr); ok && c.con != nil && c.con.AtStore != nil {
			if stt := derefType(fa.X.Type()); stt != nil {
				if su, ok := stt.Underlying().(*types.Struct); ok {
					tn := tstr(stt)
					if i := strings.LastIndex(tn, "."); i >= 0 {
						tn = tn[i+1:]
					}
					key := tn + "." + su.Field(fa.Field).Name()
					for _, cl := range c.con.AtStore[key] {
						c.atNewSeen["store:"+key] = true
						if !clauseActive(cl, c.prop) {
							continue
						}
						env := c.specEnvFor(c.cur, c.entry, nil)
						f := env.trGoal(cl.E)
						c.flushFacts(env)
						ob := c.assert(c.curItems, "requires", fmt.Sprintf("atstore:%s#%d", key, cl.Ord), "", f, x, cl.Tags, len(cl.Tags) == 0)
						ob.Text = cl.Text
					}
				}
			}
		}
		if ia, ok := x.Addr.(*ssa.IndexAddr); ok {
			if _, isSlice := ia.X.Type().Underlying().(*types.Slice); isSlice {
				if _, isPtr := x.Val.Type().Underlying().(*types.Pointer); isPtr {
					c.assert(c.curItems, "nilelem", "nilelem", exprText(x.Addr), sNot(sEq(v.T, "0")), in, nil, true)
				}
			}
		}
		c.storeLoc(st, l, v)
	case *ssa.BinOp:
		c.binop(x)
	case *ssa.ChangeType:
		v := c.val(x.X)
		v.GT = x.Type()
		c.bind(x, v)
	case *ssa.ChangeInterface:
		v := c.val(x.X)
		v.GT = x.Type()
		c.bind(x, v)
	case *ssa.Convert:
		c.convert(x)
	case *ssa.MakeInterface:
		v := c.val(x.X)
		if _, isPtr := x.X.Type().Underlying().(*types.Pointer); isPtr && !c.isLocal(x.X) {
			if _, isConst := x.X.(*ssa.Const); !isConst || true {
				c.assert(c.curItems, "typednil", "typednil", exprText(x.X)+" as "+tstr(x.Type()), sNot(sEq(v.T, "0")), in, nil, true)
			}
		}
		c.bind(x, Val{T: c.boxIface(v, x.X.Type()), S: SIface, GT: x.Type()})
	case *ssa.TypeAssert:
		c.typeAssert(x)
	case *ssa.Extract:
		t := c.env[x.Tuple].V
		c.bind(x, t.Tup[x.Index])
	case *ssa.Field:
		v := c.val(x.X)
		si := c.structSort(x.X.Type())
		f := si.Fields[x.Field]
		c.bind(x, Val{T: sx(f.Acc, v.T), S: c.sortOf(f.GT), GT: f.GT})
	case *ssa.Index:
		v := c.val(x.X)
		idx := c.val(x.Index)
		switch t := x.X.Type().Underlying().(type) {
		case *types.Array:
			c.assert(c.curItems, "index", "index", "", sAnd(sx("<=", "0", idx.T), sx("<", idx.T, sInt(t.Len()))), in, nil, true)
			c.bind(x, Val{T: sSel(v.T, idx.T), S: c.sortOf(t.Elem()), GT: t.Elem()})
		case *types.Basic:
			sl := c.ufun("strlen", []Sort{SInt}, SInt)
			c.assert(c.curItems, "index", "index", exprText(x.X)+"["+exprText(x.Index)+"]", sAnd(sx("<=", "0", idx.T), sx("<", idx.T, sx(sl, v.T))), in, nil, true)
			c.bind(x, Val{T: sx(c.ufun("str_at", []Sort{SInt, SInt}, SInt), v.T, idx.T), S: SInt, GT: x.Type()})
		default:
			c.unsupp(in, "Index on "+tstr(x.X.Type()))
			c.bind(x, c.havocVal("idx", x.Type(), st, c.curItems))
		}
	case *ssa.Call:
		r := c.call(x, x.Common())
		if r.IsTuple() {
			c.env[x] = &Bind{V: r}
		} else {
			c.bind(x, r)
		}
	case *ssa.MakeClosure:
		ref := c.allocRef("closure")
		c.env[x] = &Bind{V: Val{T: ref, S: SInt, GT: x.Type()}}
	case *ssa.MakeMap:
		ref := c.allocRef("map")
		md, _ := c.mapArrs(x.Type())
		m := x.Type().Underlying().(*types.Map)
		c.setArr(st, md, sStore(c.arrIn(st, md), ref, fmt.Sprintf("((as const %s) false)", arrSort(c.sortOf(m.Key()), SBool))))
		c.env[x] = &Bind{V: Val{T: ref, S: SInt, GT: x.Type()}}
	case *ssa.MakeSlice:
		ref := c.allocRef("mkslice")
		ln := c.val(x.Len)
		cp := c.val(x.Cap)
		c.assert(c.curItems, "slice", "makeslice", "", sAnd(sx("<=", "0", ln.T), sx("<=", ln.T, cp.T)), in, nil, true)
		et := x.Type().Underlying().(*types.Slice).Elem()
		if _, isPtr := et.Underlying().(*types.Pointer); isPtr {
			// make-then-fill: the no-nil-element discipline is checked where control leaves the region
			// dominated by the make (and at returns inside it), not at the make itself
			c.filling = append(c.filling, fillRec{x, ref, ln.T, et})
		}
		a := c.backArr(et)
		c.setArr(st, a, sStore(c.arrIn(st, a), ref, fmt.Sprintf("((as const %s) %s)", arrSort(SInt, c.sortOf(et)), c.zeroOf(et))))
		c.bind(x, Val{T: sx("mk_slice", ref, "0", ln.T), S: SSlice, GT: x.Type()})
	case *ssa.MapUpdate:
		m := c.val(x.Map)
		k := c.val(x.Key)
		v := c.val(x.Value)
		if !c.isLocal(x.Map) {
			c.assert(c.curItems, "nilmap", "nilmap", exprText(x.Map), sNot(sEq(m.T, "0")), in, nil, true)
		}
		md, mv := c.mapArrs(x.Map.Type())
		c.setArr(st, md, sStore(c.arrIn(st, md), m.T, sStore(sSel(c.arrIn(st, md), m.T), k.T, "true")))
		c.setArr(st, mv, sStore(c.arrIn(st, mv), m.T, sStore(sSel(c.arrIn(st, mv), m.T), k.T, v.T)))
		// a map held in a field with a (content) invariant: the invariant is re-established after the update
		if ld, ok := x.Map.(*ssa.UnOp); ok {
			if fi := c.fieldInvFor(nil, ld.X); fi != nil {
				if fa := ld.X.(*ssa.FieldAddr); c.V.ModPkgs[pkgOfType(derefType(fa.X.Type()))] {
					env := &SEnv{c: c, st: c.cur, old: c.entry, vars: map[string]Val{"v": m}, bound: map[string]bool{}}
					ob := c.assert(c.curItems, "fieldinv", "fieldinv", fi.Type+"."+fi.Field+" (after map update)", env.trGoal(fi.E), in, nil, true)
					ob.Text = fi.Text
				}
			}
		}
	case *ssa.Lookup:
		c.lookup(x)
	case *ssa.Slice:
		c.sliceOp(x)
	case *ssa.Range:
		c.env[x] = &Bind{V: Val{T: "0", S: SInt, GT: x.Type()}}
	case *ssa.Next:
		c.next(x)
	case *ssa.If:
		cond := c.val(x.Cond)
		bv.Exits = append(bv.Exits, Exit{Cond: cond.T, Target: in.Block().Succs[0]}, Exit{Cond: sNot(cond.T), Target: in.Block().Succs[1]})
	case *ssa.Jump:
		bv.Exits = append(bv.Exits, Exit{Cond: "true", Target: in.Block().Succs[0]})
	case *ssa.Return:
		c.ret(x)
	case *ssa.Panic:
		txt := ""
		if mi, ok := x.X.(*ssa.MakeInterface); ok {
			if k, ok := mi.X.(*ssa.Const); ok {
				txt = k.Value.ExactString()
			} else {
				txt = exprText(mi.X)
			}
		}
		c.assert(c.curItems, "panic", "panic", txt, "false", in, nil, true)
	case *ssa.Defer:
		c.defers = append(c.defers, x)
	case *ssa.RunDefers:
		for i := len(c.defers) - 1; i >= 0; i-- {
			d := c.defers[i]
			c.call(d, d.Common())
		}
	default:
		c.unsupp(in, fmt.Sprintf("instruction %T", in))
		if v, ok := in.(ssa.Value); ok {
			r := c.havocVal("unsupp", v.Type(), st, c.curItems)
			if r.IsTuple() {
				c.env[v] = &Bind{V: r}
			} else {
				c.bind(v, r)
			}
		}
	}
}

func (c *FnCtx) unop(x *ssa.UnOp) {
	st := c.cur
	switch x.Op {
	case token.MUL:
		if g, ok := x.X.(*ssa.Global); ok && !c.V.GlobalsWritten[g] {
			n := "|gv:" + g.Pkg.Pkg.Name() + "." + g.Name() + "|"
			s := c.sortOf(x.Type())
			c.D.constant(n, s)
			v := Val{T: n, S: s, GT: x.Type()}
			c.assume(c.curItems, c.typeFacts(v, c.entry))
			c.note("package-level variables never assigned outside init are constants")
			for _, gi := range c.V.DB.GlobalInvs {
				if (gi.Field == g.Name() || gi.Field == g.Pkg.Pkg.Name()+"."+g.Name()) && c.fn.Synthetic != "package initializer" {
					env := &SEnv{c: c, st: c.cur, old: c.entry, vars: map[string]Val{"v": v}, bound: map[string]bool{}}
					c.assume(c.curItems, env.trAssume(gi.E))
				}
			}
			c.bind(x, v)
			return
		}
		l := c.addrLoc(x.X, x)
		v := c.loadLoc(st, l)
		v.GT = x.Type()
		c.bind(x, v)
		bv := c.env[x].V
		c.assume(c.curItems, c.typeFacts(bv, st))
		// a reference read from an object that existed at function entry, out of an array that has
		// not been written since entry, existed at entry as well
		if !l.Obj && c.arrIn(st, l.Arr) == l.Arr {
			switch x.Type().Underlying().(type) {
			case *types.Pointer, *types.Map:
				c.assume(c.curItems, sImp(sx("<", l.Ref, c.entry.alloc), sx("<", bv.T, c.entry.alloc)))
			case *types.Slice:
				c.assume(c.curItems, sImp(sx("<", l.Ref, c.entry.alloc), sx("<", sx("sref", bv.T), c.entry.alloc)))
			}
		}
		c.assumeFieldInv(x, l, bv)
		if ia, ok := x.X.(*ssa.IndexAddr); ok {
			if _, isSlice := ia.X.Type().Underlying().(*types.Slice); isSlice {
				if _, isPtr := x.Type().Underlying().(*types.Pointer); isPtr && !c.hasFillWindow(x.Type()) {
					c.assume(c.curItems, sNot(sEq(bv.T, "0")))
					c.note("slices of pointers hold no nil elements (global discipline: assumed on element load, checked on element store / append / make)")
				}
			}
		}
	case token.NOT:
		v := c.val(x.X)
		c.bind(x, Val{T: sNot(v.T), S: SBool, GT: x.Type()})
	case token.SUB:
		v := c.val(x.X)
		c.bind(x, Val{T: sx("-", v.T), S: SInt, GT: x.Type()})
	case token.XOR:
		v := c.val(x.X)
		c.bind(x, Val{T: sx(c.ufun("bitnot", []Sort{SInt}, SInt), v.T), S: SInt, GT: x.Type()})
	default:
		c.unsupp(x, "unary "+x.Op.String())
		c.bind(x, c.havocVal("unop", x.Type(), st, c.curItems))
	}
}

func isString(t types.Type) bool {
	b, ok := t.Underlying().(*types.Basic)
	return ok && b.Info()&types.IsString != 0
}

func (c *FnCtx) binop(x *ssa.BinOp) {
	a, b := c.val(x.X), c.val(x.Y)
	t := x.X.Type()
	res := func(term string, s Sort) { c.bind(x, Val{T: term, S: s, GT: x.Type()}) }
	switch x.Op {
	case token.EQL, token.NEQ:
		var eq string
		if _, isSlice := t.Underlying().(*types.Slice); isSlice {
			// only comparison with nil is legal
			if k, ok := x.Y.(*ssa.Const); ok && k.Value == nil {
				eq = sEq(sx("sref", a.T), "0")
			} else {
				eq = sEq(sx("sref", b.T), "0")
			}
		} else {
			eq = sEq(a.T, b.T)
		}
		if x.Op == token.NEQ {
			eq = sNot(eq)
		}
		res(eq, SBool)
	case token.LSS, token.LEQ, token.GTR, token.GEQ:
		op := map[token.Token]string{token.LSS: "<", token.LEQ: "<=", token.GTR: ">", token.GEQ: ">="}[x.Op]
		if isString(t) {
			f := c.ufun("str_lt", []Sort{SInt, SInt}, SBool)
			switch x.Op {
			case token.LSS:
				res(sx(f, a.T, b.T), SBool)
			case token.GTR:
				res(sx(f, b.T, a.T), SBool)
			case token.LEQ:
				res(sNot(sx(f, b.T, a.T)), SBool)
			default:
				res(sNot(sx(f, a.T, b.T)), SBool)
			}
			return
		}
		res(sx(op, a.T, b.T), SBool)
	case token.ADD:
		if isString(t) {
			f := c.ufun("str_concat", []Sort{SInt, SInt}, SInt)
			res(sx(f, a.T, b.T), SInt)
			sl := c.ufun("strlen", []Sort{SInt}, SInt)
			c.assume(c.curItems, sEq(sx(sl, c.env[x].V.T), sx("+", sx(sl, a.T), sx(sl, b.T))))
			return
		}
		res(sx("+", a.T, b.T), SInt)
	case token.SUB:
		res(sx("-", a.T, b.T), SInt)
	case token.MUL:
		res(sx("*", a.T, b.T), SInt)
	case token.QUO, token.REM:
		c.assert(c.curItems, "div", "div", "", sNot(sEq(b.T, "0")), x, nil, true)
		c.note("integer division/remainder use SMT div/mod (differs from Go truncation for negative operands)")
		if x.Op == token.QUO {
			res(sx("div", a.T, b.T), SInt)
		} else {
			res(sx("mod", a.T, b.T), SInt)
		}
	case token.AND, token.OR, token.XOR, token.SHL, token.SHR, token.AND_NOT:
		name := map[token.Token]string{token.AND: "bitand", token.OR: "bitor", token.XOR: "bitxor", token.SHL: "shl", token.SHR: "shr", token.AND_NOT: "bitandnot"}[x.Op]
		f := c.ufun(name, []Sort{SInt, SInt}, SInt)
		res(sx(f, a.T, b.T), SInt)
	default:
		c.unsupp(x, "binary "+x.Op.String())
		c.bind(x, c.havocVal("binop", x.Type(), c.cur, c.curItems))
	}
}

func (c *FnCtx) convert(x *ssa.Convert) {
	v := c.val(x.X)
	from, to := x.X.Type().Underlying(), x.Type().Underlying()
	fb, fok := from.(*types.Basic)
	tb, tok := to.(*types.Basic)
	switch {
	case fok && tok && fb.Info()&types.IsInteger != 0 && tb.Info()&types.IsInteger != 0:
		c.note("integer conversions are the identity (machine integers treated as mathematical)")
		c.bind(x, Val{T: v.T, S: SInt, GT: x.Type()})
	case fok && tok && fb.Info()&types.IsString != 0 && tb.Info()&types.IsString != 0:
		c.bind(x, Val{T: v.T, S: SInt, GT: x.Type()})
	case fok && fb.Info()&types.IsString != 0 && !tok:
		// string -> []byte / []rune : fresh slice of the same length (contents abstract)
		ref := c.allocRef("bytes")
		ln := sx(c.ufun("strlen", []Sort{SInt}, SInt), v.T)
		c.bind(x, Val{T: sx("mk_slice", ref, "0", ln), S: SSlice, GT: x.Type()})
		c.note("string contents are abstract: []byte(s) has the length of s and unknown bytes")
	case tok && tb.Info()&types.IsString != 0 && !fok:
		r := c.havocVal("str", x.Type(), c.cur, c.curItems)
		c.assume(c.curItems, sEq(sx(c.ufun("strlen", []Sort{SInt}, SInt), r.T), sx("slen", v.T)))
		c.bind(x, r)
	default:
		r := c.havocVal("conv", x.Type(), c.cur, c.curItems)
		c.bind(x, r)
	}
}

// boxIface builds the interface value holding v of static type t.
func (c *FnCtx) boxIface(v Val, t types.Type) string {
	if _, isIface := t.Underlying().(*types.Interface); isIface {
		return v.T
	}
	tag := sInt(int64(c.U.tagOf(t)))
	return sx("mk_iface", tag, c.payload(v, t))
}

func (c *FnCtx) payload(v Val, t types.Type) string {
	s := c.sortOf(t)
	switch s {
	case SInt:
		return v.T
	case SBool:
		return sIte(v.T, "1", "0")
	}
	f := "box_" + mangle(string(s))
	u := "unbox_" + mangle(string(s))
	c.D.add(f, fmt.Sprintf("(declare-fun %s (%s) Int)", f, s))
	c.D.add(u, fmt.Sprintf("(declare-fun %s (Int) %s)", u, s))
	app := sx(f, v.T)
	if mentionsBound(v.T) {
		c.addAxiom(f, fmt.Sprintf("(forall ((x %s)) (! (= (%s (%s x)) x) :pattern ((%s x))))", s, u, f, f))
	} else if !c.grounded[app] {
		c.grounded[app] = true
		c.defs = append(c.defs, sEq(sx(u, app), v.T))
	}
	return app
}

func (c *FnCtx) unpayload(pay string, t types.Type) string {
	s := c.sortOf(t)
	switch s {
	case SInt:
		return pay
	case SBool:
		return sNot(sEq(pay, "0"))
	}
	f := "box_" + mangle(string(s))
	u := "unbox_" + mangle(string(s))
	c.D.add(f, fmt.Sprintf("(declare-fun %s (%s) Int)", f, s))
	c.D.add(u, fmt.Sprintf("(declare-fun %s (Int) %s)", u, s))
	return sx(u, pay)
}

// tagTest: formula "dynamic type of iface value x is / implements t".
func (c *FnCtx) tagTest(x string, t types.Type) string {
	if it, ok := t.Underlying().(*types.Interface); ok {
		if it.Empty() {
			return sNot(sEq(sx("itag", x), "0"))
		}
		ids, sealed := c.V.implementers(t)
		if sealed {
			var alts []string
			for _, id := range ids {
				alts = append(alts, sEq(sx("itag", x), sInt(int64(id))))
			}
			return sOr(alts...)
		}
		f := c.ufun("impl_"+mangle(tstr(t)), []Sort{SInt}, SBool)
		return sAnd(sNot(sEq(sx("itag", x), "0")), sx(f, sx("itag", x)))
	}
	return sEq(sx("itag", x), sInt(int64(c.U.tagOf(t))))
}

func (c *FnCtx) typeAssert(x *ssa.TypeAssert) {
	v := c.val(x.X)
	test := c.tagTest(v.T, x.AssertedType)
	var val Val
	if _, isIface := x.AssertedType.Underlying().(*types.Interface); isIface {
		val = Val{T: v.T, S: SIface, GT: x.AssertedType}
	} else {
		val = Val{T: c.unpayload(sx("ipay", v.T), x.AssertedType), S: c.sortOf(x.AssertedType), GT: x.AssertedType}
	}
	if x.CommaOk {
		okc := c.freshConst("ok", SBool)
		c.defs = append(c.defs, sEq(okc, test))
		vc := c.freshConst("ta", val.S)
		c.defs = append(c.defs, sEq(vc, sIte(okc, val.T, c.zeroOf(x.AssertedType))))
		val.T = vc
		c.assume(c.curItems, c.typeFacts(val, c.cur))
		c.env[x] = &Bind{V: Val{Tup: []Val{val, {T: okc, S: SBool, GT: types.Typ[types.Bool]}}, GT: x.Type()}}
		return
	}
	c.assert(c.curItems, "typeassert", "typeassert", exprText(x.X)+".("+tstr(x.AssertedType)+")", test, x, nil, true)
	c.bind(x, val)
	c.assume(c.curItems, c.typeFacts(c.env[x].V, c.cur))
}

func (c *FnCtx) lookup(x *ssa.Lookup) {
	st := c.cur
	if _, isMap := x.X.Type().Underlying().(*types.Map); isMap {
		m := c.val(x.X)
		k := c.val(x.Index)
		mt := x.X.Type().Underlying().(*types.Map)
		md, mv := c.mapArrs(x.X.Type())
		has := sAnd(sNot(sEq(m.T, "0")), sSel(sSel(c.arrIn(st, md), m.T), k.T))
		val := Val{T: sIte(has, sSel(sSel(c.arrIn(st, mv), m.T), k.T), c.zeroOf(mt.Elem())), S: c.sortOf(mt.Elem()), GT: mt.Elem()}
		if x.CommaOk {
			vc := c.freshConst("mv", val.S)
			c.defs = append(c.defs, sEq(vc, val.T))
			okc := c.freshConst("mok", SBool)
			c.defs = append(c.defs, sEq(okc, has))
			val.T = vc
			c.assume(c.curItems, c.typeFacts(val, st))
			c.env[x] = &Bind{V: Val{Tup: []Val{val, {T: okc, S: SBool, GT: types.Typ[types.Bool]}}, GT: x.Type()}}
			return
		}
		c.bind(x, val)
		c.assume(c.curItems, c.typeFacts(c.env[x].V, st))
		return
	}
	// string index
	s := c.val(x.X)
	i := c.val(x.Index)
	sl := c.ufun("strlen", []Sort{SInt}, SInt)
	c.assert(c.curItems, "index", "index", exprText(x.X)+"["+exprText(x.Index)+"]", sAnd(sx("<=", "0", i.T), sx("<", i.T, sx(sl, s.T))), x, nil, true)
	f := c.ufun("str_at", []Sort{SInt, SInt}, SInt)
	c.bind(x, Val{T: sx(f, s.T, i.T), S: SInt, GT: x.Type()})
}

func (c *FnCtx) sliceOp(x *ssa.Slice) {
	st := c.cur
	var lo, hi string
	if x.Low != nil {
		lo = c.val(x.Low).T
	} else {
		lo = "0"
	}
	switch t := x.X.Type().Underlying().(type) {
	case *types.Slice:
		s := c.val(x.X)
		if x.High != nil {
			hi = c.val(x.High).T
		} else {
			hi = sx("slen", s.T)
		}
		if x.Low != nil || x.High != nil {
			c.assert(c.curItems, "slice", "slice", exprText(x.X)+"[:]", sAnd(sx("<=", "0", lo), sx("<=", lo, hi), sx("<=", hi, sx("slen", s.T))), x, nil, true)
			c.note("slice expressions are checked against len, not cap (stricter than Go)")
		}
		c.bind(x, Val{T: sx("mk_slice", sx("sref", s.T), c.ix(sx("soff", s.T), lo), sx("-", hi, lo)), S: SSlice, GT: x.Type()})
	case *types.Pointer:
		at := t.Elem().Underlying().(*types.Array)
		base := c.addrLoc(x.X, x)
		if x.High != nil {
			hi = c.val(x.High).T
		} else {
			hi = sInt(at.Len())
		}
		if x.Low != nil || x.High != nil {
			c.assert(c.curItems, "slice", "slice", "", sAnd(sx("<=", "0", lo), sx("<=", lo, hi), sx("<=", hi, sInt(at.Len()))), x, nil, true)
		}
		if len(base.Path) != 0 {
			c.unsupp(x, "slice of nested array")
		}
		c.bind(x, Val{T: sx("mk_slice", base.Ref, lo, sx("-", hi, lo)), S: SSlice, GT: x.Type()})
	case *types.Basic:
		s := c.val(x.X)
		sl := c.ufun("strlen", []Sort{SInt}, SInt)
		if x.High != nil {
			hi = c.val(x.High).T
		} else {
			hi = sx(sl, s.T)
		}
		c.assert(c.curItems, "slice", "slice", exprText(x.X)+"[:]", sAnd(sx("<=", "0", lo), sx("<=", lo, hi), sx("<=", hi, sx(sl, s.T))), x, nil, true)
		f := c.ufun("substr", []Sort{SInt, SInt, SInt}, SInt)
		c.bind(x, Val{T: sx(f, s.T, lo, hi), S: SInt, GT: x.Type()})
		c.assume(c.curItems, sEq(sx(sl, c.env[x].V.T), sx("-", hi, lo)))
	default:
		c.unsupp(x, "slice of "+tstr(x.X.Type()))
		c.bind(x, c.havocVal("slice", x.Type(), st, c.curItems))
	}
}

func (c *FnCtx) next(x *ssa.Next) {
	st := c.cur
	rng := x.Iter.(*ssa.Range)
	tup := x.Type().(*types.Tuple)
	okv := c.havocVal("next_ok", tup.At(0).Type(), st, c.curItems)
	if x.IsString {
		k := c.havocVal("next_k", tup.At(1).Type(), st, c.curItems)
		r := c.havocVal("next_r", tup.At(2).Type(), st, c.curItems)
		s := c.val(rng.X)
		sl := c.ufun("strlen", []Sort{SInt}, SInt)
		c.assume(c.curItems, sImp(okv.T, sAnd(sx("<=", "0", k.T), sx("<", k.T, sx(sl, s.T)))))
		c.env[x] = &Bind{V: Val{Tup: []Val{okv, k, r}, GT: x.Type()}}
		return
	}
	mt := rng.X.Type().Underlying().(*types.Map)
	m := c.val(rng.X)
	md, mv := c.mapArrs(rng.X.Type())
	kt, vt := tup.At(1).Type(), tup.At(2).Type()
	var k, v Val
	if _, inv := kt.(*types.Basic); inv && kt.(*types.Basic).Kind() == types.Invalid {
		k = Val{T: c.freshConst("next_k", c.sortOf(mt.Key())), S: c.sortOf(mt.Key()), GT: mt.Key()}
	} else {
		k = c.havocVal("next_k", kt, st, c.curItems)
	}
	if b, inv := vt.(*types.Basic); inv && b.Kind() == types.Invalid {
		v = Val{T: c.freshConst("next_v", c.sortOf(mt.Elem())), S: c.sortOf(mt.Elem()), GT: mt.Elem()}
	} else {
		v = c.havocVal("next_v", vt, st, c.curItems)
	}
	c.assume(c.curItems, sImp(okv.T, sAnd(sNot(sEq(m.T, "0")), sSel(sSel(c.arrIn(st, md), m.T), k.T), sEq(v.T, sSel(sSel(c.arrIn(st, mv), m.T), k.T)))))
	c.note("map iteration: each step yields an arbitrary present key (order and repetition unconstrained)")
	c.mapOrderObligation(x)
	c.env[x] = &Bind{V: Val{Tup: []Val{okv, k, v}, GT: x.Type()}}
}

func (c *FnCtx) ret(x *ssa.Return) {
	var results []Val
	for _, r := range x.Results {
		results = append(results, c.val(r))
	}
	for _, fr := range c.filling {
		if fr.mk.Block().Dominates(x.Block()) {
			c.assert(c.curItems, "nilelem", "nilelem", "make([]"+tstr(fr.et)+", n) filled at return", c.filledFormula(c.cur, fr), x, nil, true)
		}
	}
	for _, pi := range c.pendingInv {
		returned := false
		for _, r := range x.Results {
			if r == pi.alloc {
				returned = true
			}
			if phi, ok := r.(*ssa.Phi); ok {
				for _, e := range phi.Edges {
					if e == pi.alloc {
						returned = true
					}
				}
			}
		}
		if !returned {
			continue // the object under construction is dropped on this path
		}
		if pi.alloc.(*ssa.Alloc).Block().Dominates(x.Block()) {
			ob := c.assert(c.curItems, "fieldinv", "fieldinv", pi.fi.Type+"."+pi.fi.Field+" (object constructed here, at return)", c.pendingInvFormula(c.cur, pi), x, nil, true)
			ob.Text = pi.fi.Text
		}
	}
	if c.con != nil && !c.con.Trusted {
		for _, cl := range c.con.Ensures {
			if !clauseActive(cl, c.prop) {
				continue
			}
			parts := c.V.DB.splitConj(cl.E, 0)
			for pi, pe := range parts {
				env := c.specEnvFor(c.cur, c.entry, results)
				f := env.trGoal(pe)
				c.flushFacts(env)
				stem := fmt.Sprintf("ensures#%d", cl.Ord)
				if len(parts) > 1 {
					stem = fmt.Sprintf("ensures#%d.%d", cl.Ord, pi+1)
				}
				ob := c.assert(c.curItems, "ensures", stem, "", f, x, cl.Tags, len(cl.Tags) == 0)
				ob.Text = cl.Text
				ob.Group = cl.Group
			}
		}
	}
	if c.con != nil && !c.con.Trusted {
		nAt := 0
		for _, cl := range c.con.LEnsures {
			if !clauseActive(cl, c.prop) {
				continue
			}
			parts := c.V.DB.splitConj(cl.E, 0)
			for pi, pe := range parts {
				env := c.specEnvFor(c.cur, c.entry, results)
				// a local that is not (yet) defined on the path to this return denotes an arbitrary value
				// here: a guarded clause still holds on paths where its guard is false, and a return that
				// bypasses the code the clause talks about cannot establish it
				orig := env.resolve
				havocked := map[string]Val{}
				env.resolve = func(name string) (Val, bool) {
					if v, ok := orig(name); ok {
						return v, true
					}
					if hv, ok := havocked[name]; ok {
						return hv, true
					}
					if vs := c.nameAll[name]; len(vs) > 0 && cl.AllReturns {
						hv := c.havocVal("undef_"+name, vs[0].Type(), c.cur, c.curItems)
						havocked[name] = hv
						return hv, true
					}
					return Val{}, false
				}
				ok := true
				var f string
				func() {
					defer func() {
						if rec := recover(); rec != nil {
							if strings.Contains(fmt.Sprint(rec), "unknown identifier") {
								ok = false
								return
							}
							panic(rec)
						}
					}()
					f = env.trGoal(pe)
				}()
				if !ok {
					continue
				}
				nAt++
				c.flushFacts(env)
				stem := fmt.Sprintf("lensures#%d", cl.Ord)
				if len(parts) > 1 {
					stem = fmt.Sprintf("lensures#%d.%d", cl.Ord, pi+1)
				}
				ob := c.assert(c.curItems, "ensures", stem, "", f, x, cl.Tags, len(cl.Tags) == 0)
				ob.Text = cl.Text
			}
		}
		c.lensuresAt += nAt
		c.frameCheck(x)
	}
	// frame clauses of a callback: proved per invocation (old = entry of the closure)
	if c.fn.Parent() != nil && c.con != nil {
		for _, cl := range c.con.Frames {
			if !clauseActive(cl, c.prop) {
				continue
			}
			env := c.specEnvFor(c.cur, c.entry, nil)
			f := env.trGoal(cl.E)
			c.flushFacts(env)
			ob := c.assert(c.curItems, "ensures", fmt.Sprintf("frame#%d", cl.Ord), "", f, x, cl.Tags, len(cl.Tags) == 0)
			ob.Text = cl.Text
		}
	}
	// "each" clauses of an Iterate callback: established for this key, and stable
	if c.fn.Parent() != nil && c.con != nil && len(c.con.Each) > 0 && len(c.fn.Params) > 0 {
		k := c.env[c.fn.Params[0]].V
		tidf := c.ufun("tid", []Sort{SIface}, SInt)
		for i, cl := range c.con.Each {
			if !clauseActive(cl, c.prop) {
				continue
			}
			qn := c.con.EachVar[i]
			env := c.specEnvFor(c.cur, c.entry, nil)
			env.vars[qn] = Val{T: sx(tidf, k.T), S: SInt, GT: types.Typ[types.Int]}
			f := env.trGoal(cl.E)
			c.flushFacts(env)
			ob := c.assert(c.curItems, "ensures", fmt.Sprintf("each#%d/established", cl.Ord), "", f, x, cl.Tags, len(cl.Tags) == 0)
			ob.Text = cl.Text
			// stability: forall q :: old(P(q)) ==> P(q)
			env2 := c.specEnvFor(c.cur, c.entry, nil)
			env2.vars[qn] = Val{T: "q_" + qn, S: SInt, GT: types.Typ[types.Int]}
			env2.bound[qn] = true
			post := env2.trGoal(cl.E)
			envOld := c.specEnvFor(c.entry, c.entry, nil)
			envOld.vars[qn] = Val{T: "q_" + qn, S: SInt, GT: types.Typ[types.Int]}
			envOld.bound[qn] = true
			pre := envOld.trAssume(cl.E)
			stab := fmt.Sprintf("(forall ((q_%s Int)) %s)", qn, sImp(pre, post))
			ob2 := c.assert(c.curItems, "ensures", fmt.Sprintf("each#%d/stable", cl.Ord), "", stab, x, cl.Tags, len(cl.Tags) == 0)
			ob2.Text = cl.Text
		}
	}
	// a closure re-establishes its own preconditions (they act as invariants of the callback loop)
	if c.fn.Parent() != nil && c.con != nil {
		pnames := map[string]bool{}
		for _, p := range c.fn.Params {
			pnames[p.Name()] = true
		}
		for _, r := range c.con.Requires {
			if mentionsAny(r.E, pnames) {
				continue // a fact about this invocation's arguments (schema fact), not an invariant of the callback loop
			}
			env := c.specEnvFor(c.cur, c.entry, nil)
			ok := true
			var f string
			func() {
				defer func() {
					if rec := recover(); rec != nil {
						ok = false
					}
				}()
				f = env.trGoal(r.E)
			}()
			if !ok {
				continue
			}
			c.flushFacts(env)
			ob := c.assert(c.curItems, "ensures", fmt.Sprintf("requires-preserved#%d", r.Ord), "", f, x, r.Tags, len(r.Tags) == 0)
			ob.Text = r.Text
		}
	}
	_ = strings.Join
}

type fillRec struct {
	mk  *ssa.MakeSlice
	ref string
	ln  string
	et  types.Type
}

func (c *FnCtx) filledFormula(st *State, fr fillRec) string {
	a := c.backArr(fr.et)
	return fmt.Sprintf("(forall ((fi Int)) (=> (and (<= 0 fi) (< fi %s)) (not (= %s 0))))", fr.ln, sSel(sSel(c.arrIn(st, a), fr.ref), c.ix("0", "fi")))
}

// hasFillWindow: does this function make a slice of element type t with non-zero length (so that
// elements of such slices may be nil between the make and the end of its scope)?
func (c *FnCtx) hasFillWindow(t types.Type) bool {
	if c.fillTypes == nil {
		c.fillTypes = map[string]bool{}
		for _, b := range c.fn.Blocks {
			for _, in := range b.Instrs {
				if mk, ok := in.(*ssa.MakeSlice); ok {
					c.fillTypes[typeKey(mk.Type().Underlying().(*types.Slice).Elem())] = true
				}
			}
		}
	}
	return c.fillTypes[typeKey(t)]
}
