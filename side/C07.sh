#!/bin/bash
# Bounded stand-in for C07 (completeness of the cycle search, termination): exhaustive run of the
# real verifyAcyclic on all provider graphs with <= N nodes. Contributes coverage.bounded to the
# evidence through evidence/.extra_C07.json; never counted as proved.
TIER="${1:-quick}"
cd "$(dirname "$0")/.."
export GOFLAGS=-mod=mod GOPROXY=off GOSUMDB=off GOTOOLCHAIN=local
BOUND=4; SAMPLE=0; [ "$TIER" = thorough ] && SAMPLE=200000
TMP=$(mktemp -d /tmp/govc-side-XXXXXX); trap 'rm -rf "$TMP"' EXIT
cat > "$TMP/ov.json" <<EOT
{"Replace": {"/repo/internal/wire/zz_bounded_acyclic_test.go": "/verif/replay/acyclic_bounded_test.go"}}
EOT
OUT=$(cd /repo && GOVC_BOUND=$BOUND GOVC_SAMPLE=$SAMPLE go test -overlay "$TMP/ov.json" -vet=off -count=1 -timeout 600s -v -run '^TestBounded_verifyAcyclic$' ./internal/wire 2>&1)
SUM=$(echo "$OUT" | grep '^BOUNDED-SUMMARY' | head -1)
mkdir -p evidence/replays
python3 - "$BOUND" "$SUM" <<'PY'
import json,sys,re
bound=int(sys.argv[1]); s=sys.argv[2]
m=re.search(r'graphs=(\d+) cyclic=(\d+) mismatches=(\d+)',s)
ms=re.search(r'sampled=(\d+)',s)
d={"bounded":[{"function":"wire:verifyAcyclic","what":"completeness of cycle detection and termination: real function vs reference on ALL provider graphs (function/field/value nodes) with at most %d nodes"%bound,"bound_nodes":bound,"graphs":int(m.group(1)) if m else 0,"cyclic_graphs":int(m.group(2)) if m else 0,"mismatches":int(m.group(3)) if m else -1,"exhaustive_within_bound":True,"additional_random_graphs_5_to_7_nodes":int(ms.group(1)) if ms else 0,"counted_as_proved":False}]}
json.dump(d,open('evidence/.extra_C07.json','w'))
PY
if echo "$OUT" | grep -q '^BOUNDED-FAIL'; then
  R=evidence/replays/C07_bounded_verifyAcyclic.json
  echo "$OUT" | grep '^BOUNDED-' | head -20 | python3 -c 'import sys,json; print(json.dumps({"property":"C07","kind":"bounded","function":"wire:verifyAcyclic","failures":sys.stdin.read().splitlines()},indent=1))' > $R
  echo "VIOLATION property=C07 replay=/verif/$R"
  echo "  bounded check of verifyAcyclic: $(echo "$OUT" | grep '^BOUNDED-FAIL' | head -1)"
  exit 1
fi
if [ -z "$SUM" ]; then echo "side/C07: bounded harness did not run: $(echo "$OUT" | tail -3)" >&2; exit 2; fi
echo "bounded: $SUM"
exit 0
