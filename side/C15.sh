#!/bin/bash
# Bounded stand-in for the part of C15 no contract covers: rewritePkgRefs (capture-avoiding renaming of
# copied declarations). Exhaustive run of the REAL function on a template family (see
# replay/rewrite_bounded_test.go for the bound), result re-type-checked and compared identifier by
# identifier. Contributes coverage.bounded to the evidence through evidence/.extra_C15.json; never
# counted as proved.
TIER="${1:-quick}"
cd "$(dirname "$0")/.."
export GOFLAGS=-mod=mod GOPROXY=off GOSUMDB=off GOTOOLCHAIN=local
TMP=$(mktemp -d /tmp/govc-side-XXXXXX); trap 'rm -rf "$TMP"' EXIT
cat > "$TMP/ov.json" <<EOT
{"Replace": {"/repo/internal/wire/zz_bounded_rewrite_test.go": "/verif/replay/rewrite_bounded_test.go"}}
EOT
OUT=$(cd /repo && go test -overlay "$TMP/ov.json" -vet=off -count=1 -timeout 600s -v -run '^TestBounded_rewritePkgRefs$' ./internal/wire 2>&1)
SUM=$(echo "$OUT" | grep '^BOUNDED-SUMMARY' | head -1)
mkdir -p evidence/replays
python3 - "$SUM" <<'PY'
import json,sys,re
s=sys.argv[1]
m=re.search(r'pool=(\d+) slots=(\d+) aliasSets=(\d+) programs=(\d+) skipped_illtyped=(\d+) mismatches=(\d+)',s)
d={"bounded":[{"function":"wire:(*gen).rewritePkgRefs","what":"capture-avoiding renaming of a copied declaration: the real function on every program of a template family (package-level variable, helper, one function with a parameter, two body-level locals, a local in a nested block, a local in a for clause; every assignment of names from a pool to the nameable entities; several sets of import aliases already taken); the rewritten declaration is re-type-checked and every identifier compared with the original (local objects renamed by a bijection, all others denote the same entity)",
 "pool_names":int(m.group(1)) if m else 0,"nameable_entities":int(m.group(2)) if m else 0,"alias_sets":int(m.group(3)) if m else 0,"programs":int(m.group(4)) if m else 0,"skipped_ill_typed_assignments":int(m.group(5)) if m else 0,"mismatches":int(m.group(6)) if m else -1,"exhaustive_within_bound":True,"counted_as_proved":False}]}
json.dump(d,open('evidence/.extra_C15.json','w'))
PY
if echo "$OUT" | grep -q '^BOUNDED-FAIL'; then
  R=evidence/replays/C15_bounded_rewritePkgRefs.json
  echo "$OUT" | grep '^BOUNDED-' | head -20 | python3 -c 'import sys,json; print(json.dumps({"property":"C15","kind":"bounded","function":"wire:(*gen).rewritePkgRefs","failures":sys.stdin.read().splitlines()},indent=1))' > $R
  echo "VIOLATION property=C15 replay=/verif/$R"
  echo "  bounded check of rewritePkgRefs: $(echo "$OUT" | grep '^BOUNDED-FAIL' | head -1 | cut -c1-300)"
  exit 1
fi
if [ -z "$SUM" ]; then echo "side/C15: bounded harness did not run: $(echo "$OUT" | tail -3)" >&2; exit 2; fi
echo "bounded: $SUM"
exit 0
