#!/bin/bash
# Runs the repository's test suite (guard off) and compares with the pinned baseline: exactly the 96
# stable tests pass and nothing else changes (TestWire/UnexportedStruct fails on the pinned tree).
export GOFLAGS=-mod=mod GOPROXY=off GOSUMDB=off GOTOOLCHAIN=local
cd /repo && go test -vet=off -count=1 -json ./... 2>/dev/null | python3 -c '
import sys,json
base=json.load(open("/root/.vp/BASELINE.json"))
want=set(base["stable_pass"])
got={}
for l in sys.stdin:
    try: e=json.loads(l)
    except Exception: continue
    if e.get("Test") and e.get("Action") in ("pass","fail"):
        got[e["Package"]+"::"+e["Test"]]=e["Action"]
missing=[t for t in want if got.get(t)!="pass"]
extra_fail=[t for t,a in got.items() if a=="fail" and t not in base["always_fail"]]
print("baseline: %d/%d stable tests pass; unexpected failures: %s; missing: %s"%(len(want)-len(missing),len(want),extra_fail,missing))
sys.exit(1 if missing or extra_fail else 0)
'
