#!/usr/bin/env python3
# Regenerates /verif/MANIFEST.json from the table below (kept in one place so that the claimed set,
# the notes and the not_applicable reasons stay consistent with DESIGN.md).
import json, subprocess
props=[json.loads(l) for l in open('/verif/properties.jsonl')]
TRUST="Trusted: the govc VC generator (SSA->SMT), the SMT solvers, the lib.spec dependency contracts actually used (listed in each evidence file), mathematical integers, value-copy semantics of append, partial correctness (no termination). "
claimed={
 "C03":("funcProviderCall is proved, for every call/cleanup-stack/signature, to emit the error branch in the stated shape: `if <errVar> != nil {`, then exactly the EARLIER cleanups in reverse acquisition order (the failing provider's own cleanup is not among them), `return <zero>[, nil], <errVar>`, `}`; providers without error emit no such branch. Obligations over the ghost event trace of the output buffer, discharged for all inputs.",
        "Decided at the level of the emitted event sequence (format string + arguments); that this Go text has the stated run-time meaning is the semantics of Go for a straight-line function body (assumed). The zero-value expression (zeroValue) and the chain injectPass->funcProviderCall argument slots are covered under C04/C01 obligations only as far as registered there."),
 "C04":("injectPass is proved to end every injector that declares a cleanup with `, func() {` + one call per entry of cleanupNames, last acquired first, + `}` (present also when the list is empty), and no such closure otherwise; cleanup names are proved pairwise distinct (disambiguate/nameInInjector contracts), each cleanup-returning provider adds exactly one name, earlier names are never changed.",
        "Event-trace level as for C03; dependency-before-dependant order relies on solve's call order (C02, not yet claimed); run-time meaning of the closure is Go semantics (assumed)."),
 "C05":("buildProviderMap is proved for every ProviderSet: if it returns no error then every injector argument, every key of every imported set, every provider output (value and pointer form), every value, every field output and every binding owns the map entry of its type (so no two sources have identical types), and on any conflict nothing but errors is returned. Six loops plus the Iterate callback, 739 obligations.",
        "typeutil.Map is modelled by ghost arrays keyed by the identity class of the type (trusted: Map agrees with types.Identical); the Iterate callback schema (every key visited) is trusted; that callers discard a set on error is proved in processNewSet only as far as its obligations are claimed (C20)."),
 "C08":("verifyArgsUsed is proved to return no error exactly when every directly listed import, provider, value, binding and field has a pointer-equal entry in `used` (both directions, all ten loops).",
        "That `used` is exactly the set of sources of the types visited by solve is part of solve's contract, which is not yet verified (the claim here is about the reporting function)."),
 "C09":("funcOutput is proved to implement the signature decision table of the statement over the full domain of result tuples; inject is proved to reach code generation only if every call that returns an error/cleanup is matched by the injector's signature (call-site precondition of injectPass), and to reject only then.",
        "Duplicate-parameter / duplicate-field rejection (processFuncProvider, processStruct*Provider) is not yet under contract; solve's interface contract is assumed in inject."),
 "C17":("genCmd.Execute is proved to return 0 exactly when no result carries errors and no write failed, to attempt the write of every result with content regardless of earlier failures, and to write nothing but the OutputPath of results with content; diff/check/show Execute are proved never to reach a file-writing function; diff's status is 1 only after a diff was printed, 2 exactly when the comparison could not be completed, and every non-zero status is preceded by a log line. Ghost counters model log lines, stdout lines and WriteFile calls.",
        "Generate's OutputPath = <dir>/<prefix>wire_gen.go is not part of this check; os.Exit / subcommands dispatch / flag parsing are outside; a result with both Errs and Content (format.Source failure) is written and reported as failure (the statement's 'analysis fails' is read as: no Content). lib.spec lists the writing functions (ioutil.WriteFile); library functions without an entry are assumed not to write."),
 "C18":("The wire-side conditions: load always passes -tags=wireinject (plus the user's tags), LoadAllSyntax, the caller's dir and env; frame puts the generated-code marker, the go:generate line and `//+build !wireinject` before the package clause of every non-empty output; Commit is a single whole-file WriteFile of Content and writes nothing for empty content.",
        "The crux is assumed, not proved: the loader, given these flags, ignores every file constrained by !wireinject whatever it contains; determinism of the output for fixed loader results is C16 (not yet claimed)."),
 "C02":("solve is proved (for every provider set satisfying the map invariants exported by buildProviderMap) to return a plan in which every argument slot of every call is in range and refers to an EARLIER slot, the slot's type is the concrete type the set designates for the parameter's type (injector parameter or result of an earlier call), every call's result type is recorded at the call's own slot and no two calls produce identical types (each provider at most once), and interface bindings reuse the concrete's slot without a new call. The emitters print slot names by index (C01/C03/C04 contracts).",
        "Not proved and listed as not claimed: that the entry under a binding's interface key is canonical for its concrete type (canon), that the last call produces the injector's result type (needs the acyclicity rank), and that a plan without calls returns one of the injector's own parameters. The run-time meaning of the emitted statements is Go semantics (assumed)."),
 "C06":("solve is proved to give a slot only to types that have an entry in the set's provider map (lookup by type identity only: no zero value, no implementing type, no pointer/value counterpart can be substituted because there is no other way into the index), to return no calls whenever an error was recorded, to require a source for every input of every call, and to give up on a type (abort marker) only if the type itself has no source or after ALL of its dependencies were visited, so no missing type below it is skipped.",
        "That the recorded diagnostic's TEXT names the missing type is not modelled (error values are opaque); the induction from 'all dependencies visited' to 'every reachable missing type reported' is a meta-argument over the proved invariant."),
 "C07":("verifyAcyclic is proved to start a search at every key of the provider map (all roots, used by an injector or not), to keep every trail a non-empty sequence of provided types whose inner elements have dependencies, never to crash on its map lookups, and to touch nothing but its own fresh maps. Completeness of the cycle search and termination are NOT proved: they are covered by a labelled bounded stand-in (the real function on every provider graph with at most 4 nodes, plus a seeded sample of larger graphs in the thorough tier).",
        "Bounded part (never counted as proved): cycle-detection completeness and termination need a white-path argument over all paths, which is not a first-order inductive invariant this engine can carry. Path-count independence (visit-once) is only observed through the bounded runs finishing. Soundness of reported cycles (every reported cycle is a real closed walk) was attempted and dropped for solver cost."),
}
reason_pending="contracts for this property are not yet discharged on the unchanged tree (work in progress); no check is registered until its obligations verify"
man={"version":1,
 "setup_cmd":"cd /verif/govc && GOFLAGS=-mod=mod GOPROXY=off GOSUMDB=off GOTOOLCHAIN=local go build -o /verif/bin/govc .",
 "hooks":{"guard":"verif","enable":"govc loads /repo with -tags=verif; the tag only adds the comment-only contract files internal/wire/verif_contracts.go and cmd/wire/verif_contracts.go (no declarations, nothing changes in the binary)",
   "baseline_off_cmd":"cd /repo && GOFLAGS=-mod=mod go test -json -vet=off -count=1 -timeout 25m ./...",
   "source_commits":subprocess.run("git -C /repo log --format=%h --grep='^verif' ",shell=True,capture_output=True,text=True).stdout.split(),
   "add_only":True},
 "engines":[{"name":"govc","path":"/verif/govc","serves_properties":sorted(claimed),"kind_free_text":"self-built deductive verifier for Go: contracts in guarded comment files, weakest preconditions over go/ssa of the real code, one SMT query per obligation, discharged by z3 4.8.12 / z3 5.1.0 / cvc5 1.0.3; failed obligations are replayed on the real code through go test -overlay harnesses"}],
 "checks":[], "not_applicable":[],
 "notes":"Contract-based deductive verification of the real code (see DESIGN.md). Fix commits in /repo: see known_findings.jsonl. Seeded changes used to test the checks: /verif/seeded/."}
for p in props:
    pid=p['id']
    if pid in claimed:
        text,note=claimed[pid]
        man["checks"].append({"property_id":pid,"quick_cmd":"./check %s"%pid,"thorough_cmd":"./check %s --tier thorough"%pid,
          "evidence_file":"/verif/evidence/%s.json"%pid,"replay_cmd_template":"./check %s --replay {path}"%pid,"engine":"govc",
          "level_claimed":{"category":"proof","text":text,"design_ref":"DESIGN.md §4 "+pid},
          "level_note":TRUST+note,
          "technique":"contract-based deductive verification: contracts on the real functions, VCs by weakest preconditions over go/ssa, discharged by z3/cvc5"})
    else:
        man["not_applicable"].append({"property_id":pid,"reason":reason_pending})
json.dump(man,open('/verif/MANIFEST.json','w'),indent=1)
print("claimed:",sorted(claimed))
